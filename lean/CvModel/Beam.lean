/-
  Models of `BeamSearchAlgorithm.search_simple` / `search_advanced` (algo/beam_search.py),
  `Predictor` (predictor.py) and `RandomWalksGenerator` (algo/random_walks.py).  Core Lean only.

  Everything the code takes from a predictor or from a random generator enters as an ORACLE:
  `select step layer` is the index list `torch.argsort(scores)[:beam_width]`, `draws` are the values
  returned by `torch.randint` / `torch.randperm`.  Theorems quantify over all oracles.
-/
import CvModel.Paths
namespace Cv

variable {α : Type}

structure BeamRes where
  found : Bool
  length : Nat
  path : Option (List Nat)
deriving Repr, BEq, DecidableEq

/-- gather rows by index (`layer2[idx, :]`) -/
def gather (l : List α) (idx : List Nat) : List α := idx.filterMap fun i => l[i]?

/-- `_check_path_found(hashes)`: first ball layer containing one of the (sorted) hashes -/
def checkPathFound (ball : List (List Int)) (hashesSorted : List Int) : Option Nat :=
  ball.findIdx? fun layer => layer.any fun h => isinSorted hashesSorted h

structure SimpleCfg (α : Type) where
  beamWidth : Nat
  maxSteps : Nat
  returnPath : Bool
  /-- `bfs_result_for_mitm.layers_hashes`, when a ball is given -/
  ball : Option (List (List Int))
  /-- oracle: `torch.argsort(scores)[:beam_width]` at step `i` for the rows `layer2` -/
  select : Nat → List α → List Nat

/-- the loop `for i in range(max_steps)` of `search_simple`; `allH` = `all_layers_hashes` -/
def simpleLoop (g gi : Graph α) (invMap : Option (List Nat)) (central : α) (c : SimpleCfg α)
    (ballH : List (List Int)) : Nat → Nat → List α → List (List Int) → Option BeamRes
  | 0, _, _, _ => some { found := false, length := 0, path := none }
  | fuel+1, i, layer1, allH =>
    let layer2 := g.unique (g.neighbors layer1)
    let layer2H := layer2.map g.hash
    match checkPathFound ballH layer2H with
    | some j =>
      -- `_restore_path(found_layer_id)`; outer `none` = assertion failure
      if !c.returnPath then some { found := true, length := i + j + 1, path := none }
      else if j == 0 then
        (restorePath gi allH central).map fun p => { found := true, length := i + j + 1, path := some p }
      else
        match layer2.find? (fun x => isinSorted (ballH.getD j []) (g.hash x)) with
        | none => none
        | some middle =>
          match restorePath gi allH middle, findPathFrom g gi invMap ballH middle with
          | some p1, .found p2 =>
            if (p1 ++ p2).length == i + j + 1 then
              some { found := true, length := i + j + 1, path := some (p1 ++ p2) }
            else none      -- BeamSearchResult.__post_init__ asserts len(path) == path_length
          | _, _ => none
    | none =>
      let layer2' := if layer2.length ≥ c.beamWidth then gather layer2 (c.select i layer2) else layer2
      simpleLoop g gi invMap central c ballH fuel (i + 1) layer2'
        (if c.returnPath then allH ++ [layer2'.map g.hash] else allH)

/-- `search_simple(start_state, …)`; outer `none` = assertion failure / exception -/
def beamSimple (g gi : Graph α) (invMap : Option (List Nat)) (central start : α) (c : SimpleCfg α) :
    Option BeamRes :=
  let layer1 := g.unique [start]
  let layer1H := layer1.map g.hash
  if layer1H.head? == some (g.hash central) then some { found := true, length := 0, path := some [] }
  else
    match c.ball with
    | some b =>
      if !g.invClosed then none      -- assert generators_inverse_closed (fix D6)
      else simpleLoop g gi invMap central c b c.maxSteps 0 layer1 [layer1H]
    | none => simpleLoop g gi invMap central c [[g.hash central]] c.maxSteps 0 layer1 [layer1H]

structure AdvCfg (α : Type) where
  beamWidth : Nat
  maxSteps : Nat
  historyDepth : Nat
  select : Nat → List α → List Nat

/-- ring buffer of hash columns: `vec_hashes_current[:, k]`; each column is a list of hashes -/
abbrev Ring := List (List Int)

/-- `vec_hashes_current[:len(new), k] = new` on a column of `rows` entries: the tail keeps old values.
(If `new` is longer than the column the code raises; `none`.) -/
def writeColumn (col : List Int) (new : List Int) : Option (List Int) :=
  if new.length ≤ col.length then some (new ++ col.drop new.length) else none

def advLoop [DecidableEq α] (g : Graph α) (dest : α) (c : AdvCfg α) :
    Nat → Nat → List α → Ring → Nat → Option BeamRes
  | 0, _, _, _, _ => some { found := false, length := c.maxSteps, path := none }
  | fuel+1, iStep, beam, ring, cyc =>
    let new := g.unique (g.neighbors beam)
    if new.any (· == dest) then some { found := true, length := iStep, path := none }
    else
      let r : Option (List α × Ring × Nat) :=
        if c.historyDepth > 0 then
          let newH := new.map g.hash
          let banned := ring.flatten
          let kept := new.filter fun x => !banned.contains (g.hash x)
          if kept.isEmpty then none
          else
            let cyc' := (cyc + 1) % c.historyDepth
            match writeColumn (ring.getD cyc' []) newH with
            | some col => some (kept, ring.set cyc' col, cyc')
            | none => none
        else some (new, ring, cyc)
      match r with
      | none =>
        -- either "cannot find new states" (a regular negative result) or the ring write raised
        if c.historyDepth > 0 ∧ (new.filter fun x => !ring.flatten.contains (g.hash x)).isEmpty then
          some { found := false, length := iStep, path := none }
        else none
      | some (kept, ring', cyc') =>
        let beam' := if kept.length > c.beamWidth then gather kept (c.select iStep kept) else kept
        advLoop g dest c fuel (iStep + 1) beam' ring' cyc'

/-- `search_advanced(start_state, destination_state, …)` -/
def beamAdvanced [DecidableEq α] (g : Graph α) (start dest : α) (c : AdvCfg α) : Option BeamRes :=
  if start == dest then some { found := true, length := 0, path := some [] }
  else
    let ring : Ring :=
      if c.historyDepth > 0 then
        List.replicate c.historyDepth (List.replicate (c.beamWidth * g.nGens) (g.hash start))
      else []
    advLoop g dest c c.maxSteps 1 [start] ring 0

/-! ### Predictor -/

/-- Hamming heuristic: number of positions in which the (flattened) state differs from the central state -/
def hamming (central state : List Int) : Nat :=
  ((List.zip central state).filter fun p => p.1 != p.2).length

/-- `Predictor.__call__`: split into `ceil(len / batch)` batches, score each, concatenate -/
def predictBatched {β γ : Type} (predict : List β → List γ) (batchSize : Nat) (states : List β) : List γ :=
  let numBatches := ceilDiv states.length batchSize
  if numBatches > 1 then (tensorSplit numBatches states).flatMap predict else predict states

/-! ### Random walks -/

/-- classic mode: row block `i_step` is obtained from block `i_step - 1` by the drawn generators.
`draws[i_step-1][k]` = `gen_idx[k]`. Output rows with their step counts. -/
def walksClassic (g : Graph α) (width length : Nat) (start : α) (draws : List (List Nat)) : List (α × Nat) :=
  let first := List.replicate width start
  let blocks := (List.range (length - 1)).foldl (fun (acc : List (List α)) k =>
      let prev := acc.getLast?.getD []
      let gens := draws.getD k []
      acc ++ [(List.zip prev gens).map fun p => g.act p.2 p.1]) [first]
  (List.zip blocks (List.range length)).flatMap fun p => p.1.map fun x => (x, p.2)

/-- BFS mode; `perms[k]` is the `torch.randperm(layer_size)` drawn at the k-th thinning. -/
def walksBfsLoop (g : Graph α) (width : Nat) : Nat → Nat → List α → HashSetM → List (List Nat) →
    List (α × Nat) → List (α × Nat)
  | 0, _, _, _, _, out => out
  | fuel+1, iStep, cur, seen, perms, out =>
    let nxt := g.unique (g.neighbors cur)
    let nxt := nxt.filter fun x => seen.unseen (g.hash x)
    if nxt.isEmpty then out
    else
      let (layer, perms') :=
        if nxt.length > width then
          match perms with
          | p :: rest => (gather nxt (p.take width), rest)
          | [] => (nxt.take width, [])
        else (nxt, perms)
      walksBfsLoop g width fuel (iStep + 1) layer (seen.addSorted (sortInts (layer.map g.hash))) perms'
        (out ++ layer.map fun x => (x, iStep))

def walksBfs (g : Graph α) (width length : Nat) (start : α) (perms : List (List Nat)) : List (α × Nat) :=
  walksBfsLoop g width (length - 1) 1 [start] (({} : HashSetM).addSorted [g.hash start]) perms [(start, 0)]

/-- nbt mode; `perms[k]` is the `torch.randperm(n)` of step k+1. -/
def walksNbtLoop (g : Graph α) (width historyDepth : Nat) : Nat → List α → Ring → Nat → Nat →
    List (List Nat) → List (α × Nat) → List (α × Nat)
  | 0, _, _, _, _, _, out => out
  | fuel+1, cur, ring, cyc, stepCorrected, perms, out =>
    let all := g.neighbors cur
    let allH := all.map g.hash
    let (cand, stepCorrected) :=
      if historyDepth > 0 then
        let banned := ring.flatten
        let fresh := all.filter fun x => !banned.contains (g.hash x)
        if fresh.length ≥ width then (fresh, stepCorrected + 1)
        else if fresh.length > 0 then
          ((List.replicate (ceilDiv width fresh.length) fresh).flatten.take width, stepCorrected + 1)
        else (cur, stepCorrected)
      else (all, stepCorrected + 1)
    let perm := perms.head?.getD (List.range cand.length)
    let cur' := (gather cand perm).take width
    let (ring', cyc') :=
      if historyDepth > 0 then
        let cyc' := (cyc + 1) % historyDepth
        (ring.set cyc' allH, cyc')
      else (ring, cyc)
    walksNbtLoop g width historyDepth fuel cur' ring' cyc' stepCorrected perms.tail
      (out ++ cur'.map fun x => (x, stepCorrected))

def walksNbt (g : Graph α) (width length historyDepth : Nat) (start : α) (perms : List (List Nat)) :
    List (α × Nat) :=
  let cur := List.replicate width start
  let ring : Ring :=
    if historyDepth > 0 then List.replicate historyDepth (List.replicate (width * g.nGens) (g.hash start))
    else []
  walksNbtLoop g width historyDepth (length - 1) cur ring 0 0 perms (cur.map fun x => (x, 0))

end Cv
