/-
  Model of `BfsResult.save` / `BfsResult.load` / `BfsResult.__eq__` (algo/bfs_result.py:42-137) over an
  abstract key/value store with the HDF5 layout the code uses.  Core Lean only.
-/
namespace Cv.SaveLoad

/-- a saved value: scalar flag, integer array (any rank, flattened with its shape), list of strings, string,
or the "empty" marker `torch.empty([])` written when there is no edge list -/
inductive Val where
  | flag (b : Bool)
  | ints (shape : List Nat) (data : List Int)
  | strs (l : List String)
  | str (s : String)
  | emptyMarker
deriving Repr, BEq, DecidableEq

abbrev Store := List (String × Val)

/-- a BFS result of a permutation graph as the code holds it -/
structure Res where
  completed : Bool
  layerSizes : List Nat
  /-- stored layers: layer index, rows (each row a state of length `stateSize`) -/
  layers : List (Nat × List (List Int))
  layersHashes : List (List Int)
  /-- `edges_list_hashes`: rows (start hash, end hash) -/
  edges : Option (List (Int × Int))
  gens : List (List Nat)
  genNames : List String
  central : List Nat
  name : String
deriving Repr, BEq, DecidableEq

def layerKey (i : Nat) : String := "layer__" ++ toString i
def hashKey (i : Nat) : String := "edges_list_hashes__" ++ toString i

/-- `BfsResult.save` -/
def save (r : Res) : Store :=
  [("bfs_completed", .flag r.completed),
   ("layer_sizes", .ints [r.layerSizes.length] (r.layerSizes.map Int.ofNat))] ++
  r.layers.map (fun p => (layerKey p.1, .ints [p.2.length, r.central.length] p.2.flatten)) ++
  (List.zip (List.range r.layersHashes.length) r.layersHashes).map
    (fun p => (hashKey p.1, .ints [p.2.length] p.2)) ++
  [("edges_list_hashes", match r.edges with
      | some es => .ints [es.length, 2] (es.flatMap fun e => [e.1, e.2])
      | none => .emptyMarker),
   ("graph__generators", .ints [r.gens.length, r.central.length] (r.gens.flatten.map Int.ofNat)),
   ("graph__generator_names", .strs r.genNames),
   ("graph__central_state", .ints [r.central.length] (r.central.map Int.ofNat)),
   ("graph__name", .str r.name)]

def get (s : Store) (k : String) : Option Val := (s.find? fun p => p.1 == k).map (·.2)

def chunk (w : Nat) : Nat → List Int → List (List Int)
  | 0, _ => []
  | rows+1, l => l.take w :: chunk w rows (l.drop w)

/-- `int(k.strip("layer__"))` for keys of the form `layer__<digits>` -/
def parseLayerKey (k : String) : Option Nat :=
  if k.startsWith "layer__" then (k.drop 7).toNat? else none

/-- `BfsResult.load`; `none` where the code raises -/
def load (s : Store) : Option Res :=
  match get s "bfs_completed", get s "layer_sizes", get s "edges_list_hashes", get s "graph__generators",
        get s "graph__generator_names", get s "graph__central_state", get s "graph__name" with
  | some (.flag c), some (.ints _ sizes), some ev, some (.ints [ng, n] gens), some (.strs names),
    some (.ints _ central), some (.str name) =>
    -- `for i in range(len(layer_sizes)): key = …; if key not in f: break`
    let hashes := (List.range sizes.length).foldl (fun (acc : List (List Int) × Bool) i =>
        if acc.2 then acc else
        match get s (hashKey i) with
        | some (.ints _ h) => (acc.1 ++ [h], false)
        | _ => (acc.1, true)) ([], false)
    let edges : Option (List (Int × Int)) :=
      match ev with
      | .ints [rows, 2] d => some ((chunk 2 rows d).map fun r => (r.getD 0 0, r.getD 1 0))
      | _ => none
    let layers := s.filterMap fun p =>
      match parseLayerKey p.1, p.2 with
      | some i, .ints [rows, w] d => some (i, chunk w rows d)
      | _, _ => none
    some { completed := c, layerSizes := sizes.map Int.toNat, layers := layers, layersHashes := hashes.1,
           edges := edges, gens := (chunk n ng gens).map (·.map Int.toNat), genNames := names,
           central := central.map Int.toNat, name := name }
  | _, _, _, _, _, _, _ => none

/-- `BfsResult.__eq__` (stored layers compared as a dict: same key set, equal tensors) -/
def beq (a b : Res) : Bool :=
  a.completed == b.completed && a.layerSizes == b.layerSizes &&
  (a.layers.map (·.1)).all (fun k => (b.layers.map (·.1)).contains k) &&
  (b.layers.map (·.1)).all (fun k => (a.layers.map (·.1)).contains k) &&
  a.layers.all (fun p => (b.layers.find? fun q => q.1 == p.1).map (·.2) == some p.2) &&
  a.layersHashes == b.layersHashes && a.edges == b.edges &&
  a.gens == b.gens && a.genNames == b.genNames && a.central == b.central && a.name == b.name

end Cv.SaveLoad
