/-
  States as `Nat`: a state `s[0..n)` with digits `< B` is the number `Σ s[i]·B^i`.
  Used by the driver so that every algorithm model runs on a type with decidable equality and an
  injective integer key.  Core Lean only.
-/
namespace Cv

def unpack (B n : Nat) (k : Nat) : List Nat :=
  match n with
  | 0 => []
  | n+1 => (k % B) :: unpack B n (k / B)

def pack (B : Nat) : List Nat → Nat
  | [] => 0
  | d :: t => d + B * pack B t

/-- the action of permutation `p` on a state: `new[j] = old[p[j]]` -/
def permuteList (p : List Nat) (s : List Nat) : List Nat := p.map fun i => s.getD i 0

def permAct (B n : Nat) (p : List Nat) (k : Nat) : Nat :=
  let s := (unpack B n k).toArray
  pack B (p.map fun i => s.getD i 0)

/-- `M · S` for an `n×n` matrix (row-major list) and an `n×m` state (row-major list), entries reduced
modulo `B` (`B = modulo`, or `2^64` for wrapped signed 64-bit arithmetic). -/
def matMul (B n m : Nat) (M : Array Nat) (S : Array Nat) : List Nat :=
  (List.range (n * m)).map fun idx =>
    let r := idx / m
    let c := idx % m
    ((List.range n).foldl (fun acc j => acc + M.getD (r * n + j) 0 * S.getD (j * m + c) 0) 0) % B

def matAct (B n m : Nat) (M : Array Nat) (k : Nat) : Nat :=
  pack B (matMul B n m M (unpack B (n * m) k).toArray)

end Cv
