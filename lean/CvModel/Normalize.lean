/-
  Model of how user-supplied states, central states and generators become the integer rows the library works
  with.  Core Lean only.

  * `CayleyGraph.encode_states` (cayley_graph.py:146-152):
      `states = torch.as_tensor(states, device=…, dtype=torch.int64); states = states.reshape((-1, state_size))`
    then, on an encoded graph, `StringEncoder.encode` (string_encoder.py:45-61).
  * `CayleyGraphDef.normalize_central_state` (cayley_graph_def.py:250-258):
      lists go through `np.array`, anything with `reshape` is flattened, then `[int(x) for x in central_state]`.
  * generator normalisation in `CayleyGraphDef.create` (cayley_graph_def.py:128-138): rows of a 2-D container, then
      `[[int(x) for x in perm] for perm in generators_list]`.

  An `Input` is the mathematical content of what the user passed: the container kind (with its integer dtype),
  the shape, and the values in row-major order.  A container with a fixed-width dtype can only HOLD the values of
  that dtype: `stored` is what it holds when asked to hold `v` (two's-complement wrap) — the identity exactly on the
  representable values (`holds`).  The cast to int64 (`torch.as_tensor(…, dtype=int64)`) sign- or zero-extends the
  held value, i.e. is the identity on everything that fits in int64 and wraps modulo 2^64 otherwise (np.uint64).

  `encodeNarrow` models the bit-serial encoder run on a tensor of a narrower dtype WITHOUT that cast (the code
  before the fix "encode_states converts states of any integer dtype to int64").
-/
import CvModel.Codec
namespace Cv.Normalize

/-- the kind of object the user passed; arrays and tensors carry an integer dtype (`bits`, `signed`) -/
inductive Container where
  | pyList
  | npArray (bits : Nat) (signed : Bool)
  | torchTensor (bits : Nat) (signed : Bool)
  /-- a string of decimal digits (documented for central states only) -/
  | str
deriving Repr, DecidableEq

/-- the shape in which the states were passed: one flat state, a one-row batch, one `n × m` matrix state, a batch of
`rows` flat states, a batch of `rows` matrix states -/
inductive Shape where
  | flat
  | oneRow
  | matrix (n m : Nat)
  | batch (rows : Nat)
  | batchMatrix (rows n m : Nat)
deriving Repr, DecidableEq

structure Input where
  container : Container
  shape : Shape
  /-- values in row-major order -/
  values : List Int
deriving Repr, DecidableEq

/-- two's-complement wrap of an integer into a `bits`-wide signed / unsigned dtype -/
def wrap (bits : Nat) (signed : Bool) (v : Int) : Int :=
  if signed then v.bmod (2 ^ bits) else v % ((2 ^ bits : Nat) : Int)

/-- `v` is a value of the `bits`-wide signed / unsigned dtype -/
def inDtype (bits : Nat) (signed : Bool) (v : Int) : Bool :=
  if signed then decide (-((2 ^ bits : Nat) : Int) ≤ v * 2) && decide (v * 2 < ((2 ^ bits : Nat) : Int))
  else decide (0 ≤ v) && decide (v < ((2 ^ bits : Nat) : Int))

/-- the container can hold the value exactly: Python ints are unbounded, arrays / tensors hold the values of their
dtype, a string of digits holds `0..9` per character -/
def Container.holds : Container → Int → Bool
  | .pyList, _ => true
  | .npArray b s, v => inDtype b s v
  | .torchTensor b s, v => inDtype b s v
  | .str, v => decide (0 ≤ v) && decide (v ≤ 9)

/-- what the container holds when asked to hold `v` (identity on `holds`) -/
def Container.stored : Container → Int → Int
  | .pyList, v => v
  | .npArray b s, v => wrap b s v
  | .torchTensor b s, v => wrap b s v
  | .str, v => v % 10

/-- `v` is an int64 value -/
def inInt64 (v : Int) : Bool := inDtype 64 true v

/-- every value is representable in the container's dtype.  For a Python list the dtype that counts is the int64 the
list is converted to: `torch.as_tensor([2**63], dtype=torch.int64)` raises `Overflow when unpacking long long`. -/
def fits (i : Input) : Bool :=
  i.values.all fun v => i.container.holds v && (i.container != .pyList || inInt64 v)

/-- the cast of one held value to int64 (sign or zero extension; wraps modulo 2^64 only for values ≥ 2^63 of an
unsigned 64-bit array) -/
def castInt64 (x : Int) : Int := wrap 64 true x

/-- the widening cast `torch.as_tensor(states, dtype=torch.int64)` on the row-major values -/
def asInt64 (i : Input) : List Int := i.values.map fun v => castInt64 (i.container.stored v)

/-- cut a flat list into `rows` rows of width `w` -/
def chunk {α : Type} (w : Nat) : Nat → List α → List (List α)
  | 0, _ => []
  | rows+1, l => l.take w :: chunk w rows (l.drop w)

/-- `encode_states` up to the encoder: the rows after `reshape((-1, stateSize))`.  `none` where the code raises:
a `str` (`TypeError: new(): invalid data type 'str'`), a Python int outside int64 (`Overflow when unpacking long
long`), a size that is not a multiple of the state size.  The shape plays no role: `reshape((-1, n))` reads the
elements in row-major order. -/
def normalizeStates (stateSize : Nat) (i : Input) : Option (List (List Int)) :=
  if i.container = .str then none
  else if i.container = .pyList && !(fits i) then none
  else if stateSize = 0 then none
  else
    let v := asInt64 i
    if v.length % stateSize = 0 then some (chunk stateSize (v.length / stateSize) v) else none

/-- `normalize_central_state`: flatten, then `int(x)` of every element (exact for every integer scalar type, and for
the characters of a string of digits) -/
def normalizeCentral (i : Input) : List Int := i.values.map i.container.stored

/-- the generator normalisation of `CayleyGraphDef.create`: a 2-D list / array / tensor (`k` rows of length `n`), each
entry through `int(x)` / `.item()`.  `none` for other shapes, for a `str` (`ValueError: Unsupported format`) and
for a wrong number of values. -/
def normalizeGens (i : Input) : Option (List (List Int)) :=
  match i.shape with
  | .matrix k n =>
    if i.container = .str then none
    else if i.values.length = k * n then some (chunk n k (i.values.map i.container.stored)) else none
  | _ => none

/-! ### the encoder on a narrow tensor -/

/-- `StringEncoder.encode` for one row held in a SIGNED `bits`-wide tensor, without the cast to int64:
`encoded[:, i // 64] |= ((s[:, i // w] >> (i % w)) & 1) << (i % 64)` where, by torch type promotion with Python
scalars, `>>`, `&` and `<<` are evaluated in the `bits`-wide dtype (a left shift by `≥ bits` positions gives 0, a
shift into position `bits-1` gives the sign bit) and only the in-place `|=` into the int64 word promotes the
result, by sign extension. -/
def encodeNarrow (bits : Nat) (w n : Nat) (s : List Nat) : List (BitVec 64) :=
  (List.range (w * n)).foldl
    (fun enc i =>
      let v : BitVec bits := BitVec.ofNat bits (s.getD (i / w) 0)
      Cv.Codec.orAt enc (i / 64) ((((v.sshiftRight (i % w)) &&& 1#bits) <<< (i % 64)).signExtend 64))
    (List.replicate (Cv.Codec.encLen w n) 0#64)

/-- the same for an UNSIGNED `bits`-wide tensor (torch.uint8): logical right shift, promotion by zero extension -/
def encodeNarrowU (bits : Nat) (w n : Nat) (s : List Nat) : List (BitVec 64) :=
  (List.range (w * n)).foldl
    (fun enc i =>
      let v : BitVec bits := BitVec.ofNat bits (s.getD (i / w) 0)
      Cv.Codec.orAt enc (i / 64) ((((v >>> (i % w)) &&& 1#bits) <<< (i % 64)).zeroExtend 64))
    (List.replicate (Cv.Codec.encLen w n) 0#64)

/-- the row a `bits`-wide signed tensor holding `s` becomes under the cast to int64, as naturals -/
def widenRow (bits : Nat) (s : List Nat) : List Nat :=
  (asInt64 ⟨.torchTensor bits true, .oneRow, s.map Int.ofNat⟩).map Int.toNat

end Cv.Normalize
