/-
  Model of `cayleypy/permutation_utils.py`.  Core Lean only.
  Permutations are one-line lists `p : List Nat`; the action convention is `new[i] = old[p[i]]`.
-/
namespace Cv.Perm

def identity (n : Nat) : List Nat := List.range n

/-- `apply_permutation(p, x) = [x[p[i]] for i in range(len(p))]` (`x[p[i]]` raises IndexError when out of
range: `none`) -/
def apply? {β : Type} (p : List Nat) (x : List β) : Option (List β) := p.mapM fun i => x[i]?

/-- total version used where the index is known to be in range -/
def apply (p : List Nat) (x : List Nat) : List Nat := p.map fun i => x.getD i 0

/-- `compose_permutations(p1, p2) = apply_permutation(p1, p2)` -/
def compose (p1 p2 : List Nat) : List Nat := apply p1 p2

/-- `ans = [0]*n; for i in range(n): ans[p[i]] = i` -/
def inverse (p : List Nat) : List Nat :=
  (List.range p.length).foldl (fun ans i => ans.set (p.getD i 0) i) (List.replicate p.length 0)

/-- `sorted(list(p)) == list(range(len(p)))` -/
def isPerm (p : List Nat) : Bool :=
  p.mergeSort (fun a b => decide (a ≤ b)) == List.range p.length

/-- `transposition(n, i1, i2)`; `none` where the code asserts -/
def transposition (n i1 i2 : Nat) : Option (List Nat) :=
  if i1 < n ∧ i2 < n ∧ i1 ≠ i2 then some (((List.range n).set i1 i2).set i2 i1) else none

/-- one cycle written into `perm`; `none` where the code asserts (out of range / intersecting) -/
def writeCycle (n : Nat) (cycle : List Int) (perm : List Nat) : Option (List Nat) :=
  (List.range cycle.length).foldlM (fun (perm : List Nat) i =>
    let c := cycle.getD i 0
    let nxt := cycle.getD ((i + 1) % cycle.length) 0
    if 0 ≤ c ∧ c < (n : Int) ∧ perm.getD c.toNat 0 = c.toNat then
      some (perm.set c.toNat nxt.toNat)
    else none) perm

/-- `permutation_from_cycles(n, cycles, offset)` -/
def fromCycles (n : Nat) (cycles : List (List Int)) (offset : Int := 0) : Option (List Nat) :=
  (cycles.map fun c => c.map (· - offset)).foldlM (fun perm c => writeCycle n c perm) (List.range n)

/-- `partition_to_permutation(cycle_lengths, flag_random)`: `elements` is `range(n)` or the result of
`random.shuffle` (oracle input). -/
def partitionToPermutation (cycleLengths : List Nat) (elements : List Nat) : List Nat :=
  let n := cycleLengths.sum
  let step := fun (acc : List Nat × Nat) size =>
    let cycle := (elements.drop acc.2).take size
    let perm := (List.range size).foldl
      (fun perm i => perm.set (cycle.getD i 0) (cycle.getD ((i + 1) % size) 0)) acc.1
    (perm, acc.2 + size)
  (cycleLengths.foldl step (List.replicate n 0, 0)).1

/-! ### `permutations_with_cycle_lenghts` : canonical backtracking over cycle minima -/

/-- `itertools.combinations(l, k)` in lexicographic order -/
def combinations {β : Type} : List β → Nat → List (List β)
  | _, 0 => [[]]
  | [], _+1 => []
  | a :: t, k+1 => (combinations t k).map (a :: ·) ++ combinations t (k+1)

/-- all ways to take one element out of a list, in order -/
def picks {β : Type} : List β → List (β × List β)
  | [] => []
  | a :: t => (a, t) :: (picks t).map fun p => (p.1, a :: p.2)

/-- `itertools.permutations(l)` in its lexicographic-by-position order -/
def permsOf {β : Type} : Nat → List β → List (List β)
  | 0, _ => [[]]
  | fuel+1, l =>
    if l.isEmpty then [[]] else
    (picks l).flatMap fun p => (permsOf fuel p.2).map (p.1 :: ·)

/-- multiset of remaining cycle lengths as a sorted association list (length, count) -/
abbrev Counter := List (Nat × Nat)

def counterOf (l : List Nat) : Counter :=
  let s := l.mergeSort (fun a b => decide (a ≤ b))
  s.eraseDups.map fun k => (k, s.count k)

def counterDec (c : Counter) (k : Nat) : Counter :=
  c.filterMap fun p => if p.1 = k then (if p.2 ≤ 1 then none else some (k, p.2 - 1)) else some p

/-- the generator `backtrack(last_min, available, lengths_counter)`; `last : Option Nat` is `last_min`
(`none` = -1).  Fuel = number of cycles still to place + 1. -/
def backtrack : Nat → Option Nat → List Nat → Counter → List (List (List Nat))
  | 0, _, _, _ => []
  | fuel+1, last, available, lengths =>
    if lengths.isEmpty then (if available.isEmpty then [[]] else [])
    else
      lengths.flatMap fun (k, _) =>
        let newLengths := counterDec lengths k
        (combinations available k).flatMap fun comb =>
          match comb with
          | [] => []
          | m :: rest =>
            if (match last with | none => false | some l => decide (m ≤ l)) then []
            else
              (permsOf rest.length rest).flatMap fun order =>
                let cycle := m :: order
                let newAvail := available.filter fun x => !cycle.contains x
                (backtrack fuel (some m) newAvail newLengths).map fun tail => cycle :: tail

def cyclesToPerm (n : Nat) (cycles : List (List Nat)) : List Nat :=
  cycles.foldl (fun arr cyc =>
    (List.range cyc.length).foldl
      (fun arr i => arr.set (cyc.getD i 0) (cyc.getD ((i + 1) % cyc.length) 0)) arr) (List.range n)

/-- `permutations_with_cycle_lenghts(n, cycle_lengths)`; `none` where the code asserts / raises -/
def permutationsWithCycleLengths (n : Nat) (cycleLengths : List Nat) : Option (List (List Nat)) :=
  if n < 1 ∨ cycleLengths.any (· < 1) ∨ cycleLengths.sum ≠ n then none
  else
    some ((backtrack (cycleLengths.length + 1) none (List.range n) (counterOf cycleLengths)).map
      (cyclesToPerm n))

/-- cycle type of a permutation (multiset of cycle lengths, sorted); specification side -/
def cycleOf (p : List Nat) (start : Nat) : Nat → List Nat
  | 0 => []
  | fuel+1 =>
    let rec go (fuel : Nat) (cur : Nat) (acc : List Nat) : List Nat :=
      match fuel with
      | 0 => acc.reverse
      | f+1 => if cur = start then acc.reverse else go f (p.getD cur 0) (cur :: acc)
    start :: go fuel (p.getD start 0) []

def cycleType (p : List Nat) : List Nat :=
  let n := p.length
  let (_, lens) := (List.range n).foldl (fun (acc : List Nat × List Nat) i =>
      if acc.1.contains i then acc
      else
        let c := cycleOf p i (n + 1)
        (acc.1 ++ c, acc.2 ++ [c.length])) ([], [])
  lens.mergeSort (fun a b => decide (a ≤ b))

end Cv.Perm
