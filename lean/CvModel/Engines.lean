/-
  Models of the alternative BFS engines: `bfs_numpy` (algo/bfs_numpy.py) and the bookkeeping of
  `bfs_bitmask` (algo/bfs_bitmask.py: rank / unrank of permutation prefixes, gray / black bit sets).
  Core Lean only.
-/
import CvModel.Bfs
import CvModel.Perm
namespace Cv

variable {α : Type} [DecidableEq α]

/-! ### bfs_numpy: per-generator frontier groups -/

/-- `np.setdiff1d(a, b, assume_unique=True)` on duplicate-free arrays -/
def setdiff (a b : List α) : List α := a.filter fun x => !b.contains x

/-- `_make_states_unique(layer)`: `layer[i1] -= layer[i2]` for all `i1 < i2`, in that order -/
def makeUnique (layer : List (List α)) : List (List α) :=
  (List.range layer.length).map fun i1 =>
    ((List.range layer.length).filter (· > i1)).foldl (fun acc i2 => setdiff acc (layer.getD i2 [])) (layer.getD i1 [])

/-- one iteration of the main loop: `layer2[i1]` = images under generator `i1` of all groups of `layer1` except
the group of the inverse generator, minus everything in `layer0` and `layer1`; then made unique -/
def numpyStep (nGens : Nat) (act : Nat → α → α) (invIdx : List Nat) (layer0 layer1 : List (List α)) :
    List (List α) :=
  let raw := (List.range nGens).map fun i1 =>
    let nextGroup := ((List.range nGens).filter fun i2 => i2 != invIdx.getD i1 0).flatMap fun i2 =>
      (layer1.getD i2 []).map (act i1)
    (List.range nGens).foldl (fun st i2 => setdiff (setdiff st (layer0.getD i2 [])) (layer1.getD i2 [])) nextGroup
  makeUnique raw

def numpyLoop (nGens : Nat) (act : Nat → α → α) (invIdx : List Nat) :
    Nat → List (List α) → List (List α) → List Nat → List Nat
  | 0, _, _, sizes => sizes
  | fuel+1, layer0, layer1, sizes =>
    let layer2 := numpyStep nGens act invIdx layer0 layer1
    let size := (layer2.map List.length).sum
    if size == 0 then sizes else numpyLoop nGens act invIdx fuel layer1 layer2 (sizes ++ [size])

/-- `bfs_numpy(graph, max_diameter)` (with the repaired handling of an empty first layer) -/
def bfsNumpy (nGens : Nat) (act : Nat → α → α) (invIdx : List Nat) (start : α) (maxDiameter : Nat) : List Nat :=
  let layer0 := List.replicate nGens [start]
  let layer1 := makeUnique ((List.range nGens).map fun i => setdiff [act i start] [start])
  let size1 := (layer1.flatten.eraseDups).length
  if size1 == 0 then [1]
  else numpyLoop nGens act invIdx (maxDiameter - 1) layer0 layer1 [1, size1]

/-! ### bfs_bitmask: rank of a permutation prefix = its index in `itertools.permutations(range(R))` -/

/-- index of `p` in the lexicographic enumeration of the permutations of its own sorted entries (Lehmer code) -/
def lexRank : List Nat → Nat
  | [] => 0
  | a :: t => (t.filter (· < a)).length * (List.range t.length).foldl (fun f i => f * (i + 1)) 1 + lexRank t

/-- `k`-th permutation (lexicographic) of the sorted list `avail` -/
def lexUnrank : Nat → List Nat → Nat → List Nat
  | 0, _, _ => []
  | fuel+1, avail, k =>
    let m := avail.length - 1
    let f := (List.range m).foldl (fun f i => f * (i + 1)) 1
    let i := k / f
    let a := avail.getD i 0
    a :: lexUnrank fuel (avail.eraseIdx i) (k % f)

/-- gray/black bit-set BFS over any finite vertex type (what `CayleyGraphChunkedBfs.bfs` does once ranks are
identified with vertices): `black` = all visited, `last` = last layer -/
def bitsetLoop (nb : α → List α) : Nat → List α → List α → List Nat → List Nat
  | 0, _, _, sizes => sizes
  | fuel+1, black, last, sizes =>
    if last.isEmpty then sizes else
    let gray := (last.flatMap nb).eraseDups
    let new := gray.filter fun x => !black.contains x
    if new.isEmpty then sizes else bitsetLoop nb fuel (black ++ new) new (sizes ++ [new.length])

def bfsBitset (nb : α → List α) (start : α) (maxDiameter : Nat) : List Nat :=
  bitsetLoop nb maxDiameter [start] [start] [1]

end Cv
