/-
  Semantics of the small pure-Python subset that `harness/extract/pylean.py` translates into Lean
  (`CvGen/PyPerm.lean`, `CvGen/PyFamilies.lean`, regenerated from `/repo` on every run).  Core Lean only.

  Python `int` is `Int` (unbounded).  A Python exception (`AssertionError`, `IndexError`,
  `ZeroDivisionError`) is `none` in the `Option` monad: the translated functions return `Option α`.
-/
namespace Cv.Py

/-- `list(range(a, b, c))` (`c ≠ 0`; the translator only accepts a non-zero literal step) -/
def pyRange (a b c : Int) : List Int :=
  if 0 < c then (List.range ((b - a + c - 1) / c).toNat).map fun (k : Nat) => a + c * (k : Int)
  else if c < 0 then (List.range ((a - b + (-c) - 1) / (-c)).toNat).map fun (k : Nat) => a + c * (k : Int)
  else []

/-- `x[i]` with Python's negative-index rule; `none` = IndexError -/
def pyGet {α : Type} (x : List α) (i : Int) : Option α :=
  if 0 ≤ i then x[i.toNat]?
  else if -(x.length : Int) ≤ i then x[((x.length : Int) + i).toNat]?
  else none

/-- `x[i] = v` (returns the updated list); `none` = IndexError -/
def pySet {α : Type} (x : List α) (i : Int) (v : α) : Option (List α) :=
  if 0 ≤ i then (if i.toNat < x.length then some (x.set i.toNat v) else none)
  else if -(x.length : Int) ≤ i then some (x.set ((x.length : Int) + i).toNat v)
  else none

/-- `a % b` (floor modulus, sign of the divisor); `none` = ZeroDivisionError -/
def pyMod (a b : Int) : Option Int := if b = 0 then none else some (Int.fmod a b)

/-- `a // b` (floor division); `none` = ZeroDivisionError -/
def pyFloorDiv (a b : Int) : Option Int := if b = 0 then none else some (Int.fdiv a b)

/-- `assert b` -/
def pyAssert (b : Bool) : Option Unit := if b then some () else none

/-- `str(i)` for an `int` -/
def pyStr (i : Int) : String := toString i

/-- `sep.join(l)` -/
def pyJoin (sep : String) (l : List String) : String := sep.intercalate l

/-- `sorted(l)` for a list of `int` -/
def pySorted (l : List Int) : List Int := l.mergeSort fun a b => decide (a ≤ b)

/-- `[v] * n` -/
def pyRepeat {α : Type} (v : α) (n : Int) : List α := List.replicate n.toNat v

/-- `len(x)` -/
def pyLen {α : Type} (x : List α) : Int := (x.length : Int)

/-- the keyword arguments handed to `CayleyGraphDef.create(generators, central_state=…, generator_names=…,
name=…)`; `none` = argument not given (the defaults are applied by `create`, modelled in `GraphDef.lean`) -/
structure RawDef where
  gens : List (List Int)
  central : Option (List Int)
  names : Option (List String)
  name : Option String
  deriving Repr, BEq, DecidableEq

end Cv.Py

namespace Cv.Py

/-- all ways to take one element out of a list, in order -/
def pyPicks {α : Type} : List α → List (α × List α)
  | [] => []
  | a :: t => (a, t) :: (pyPicks t).map fun p => (p.1, a :: p.2)

/-- `itertools.permutations(l, r)` as lists, in itertools' order (lexicographic by position) -/
def pyPermutationsN {α : Type} : Nat → List α → List (List α)
  | 0, _ => [[]]
  | r+1, l => (pyPicks l).flatMap fun p => (pyPermutationsN r p.2).map (p.1 :: ·)

def pyPermutationsR {α : Type} (l : List α) (r : Int) : List (List α) :=
  if r < 0 then [] else pyPermutationsN r.toNat l      -- (a negative r raises ValueError: never produced by the sources translated)

def pyPermutations {α : Type} (l : List α) : List (List α) := pyPermutationsN l.length l

/-- `itertools.combinations(l, k)` in lexicographic order -/
def pyCombinationsN {α : Type} : List α → Nat → List (List α)
  | _, 0 => [[]]
  | [], _+1 => []
  | a :: t, k+1 => (pyCombinationsN t k).map (a :: ·) ++ pyCombinationsN t (k+1)

def pyCombinations {α : Type} (l : List α) (k : Int) : List (List α) :=
  if k < 0 then [] else pyCombinationsN l k.toNat

/-- `enumerate(l)` -/
def pyEnumerate {α : Type} (l : List α) : List (Int × α) :=
  List.zipWith (fun (i : Nat) (a : α) => ((i : Int), a)) (List.range l.length) l

/-- `any(f x for x in l)` with short-circuit evaluation (elements after the first true one are not evaluated) -/
def pyAnyM {α : Type} (f : α → Option Bool) : List α → Option Bool
  | [] => some false
  | a :: t => do if (← f a) then pure true else pyAnyM f t

/-- `all(f x for x in l)` with short-circuit evaluation -/
def pyAllM {α : Type} (f : α → Option Bool) : List α → Option Bool
  | [] => some true
  | a :: t => do if (← f a) then pyAllM f t else pure false

end Cv.Py

namespace Cv.Py

/-- `d[k] = v` on an insertion-ordered `dict` (association list): an existing key keeps its position -/
def pyDictSet {β : Type} : List (String × β) → String → β → List (String × β)
  | [], k, v => [(k, v)]
  | (k', v') :: t, k, v => if k' = k then (k, v) :: t else (k', v') :: pyDictSet t k v

/-- `d[k]`; `none` = KeyError -/
def pyDictGet {β : Type} (d : List (String × β)) (k : String) : Option β := (d.find? fun p => p.1 = k).map (·.2)

/-- `sub in s` for strings -/
def pyStrContains (s sub : String) : Bool :=
  let cs := s.toList
  let ss := sub.toList
  (List.range (cs.length + 1)).any fun i => (cs.drop i).take ss.length == ss

end Cv.Py

namespace Cv.Py

/-- `raise SomeError(...)` -/
def pyRaise : Option Unit := none

/-- Python's clamping of a slice bound: negative counts from the end, then clamp to `[0, len]` -/
def pyClamp (len : Nat) (i : Int) : Nat :=
  let j := if i < 0 then i + (len : Int) else i
  if j < 0 then 0 else min j.toNat len

/-- `x[a:b]` (no step); `none` = bound omitted -/
def pySlice {α : Type} (x : List α) (a b : Option Int) : List α :=
  let lo := match a with | none => 0 | some i => pyClamp x.length i
  let hi := match b with | none => x.length | some i => pyClamp x.length i
  (x.drop lo).take (hi - lo)

/-- `x.remove(v)`: removes the first occurrence; `none` = ValueError -/
def pyRemove {α : Type} [BEq α] (x : List α) (v : α) : Option (List α) :=
  if x.contains v then some (x.erase v) else none

end Cv.Py

namespace Cv.Py

/-- `min(l)`; `none` = ValueError on an empty list -/
def pyMin : List Int → Option Int
  | [] => none
  | a :: t => some (t.foldl min a)

/-- `max(l)`; `none` = ValueError on an empty list -/
def pyMax : List Int → Option Int
  | [] => none
  | a :: t => some (t.foldl max a)

end Cv.Py

namespace Cv.Py

/-- `d[k] = v` on an insertion-ordered `dict` with arbitrary (hashable) keys: an existing key keeps its position -/
def pyKSet {κ β : Type} [BEq κ] : List (κ × β) → κ → β → List (κ × β)
  | [], k, v => [(k, v)]
  | (k', v') :: t, k, v => if k' == k then (k, v) :: t else (k', v') :: pyKSet t k v

/-- `d[k]`; `none` = KeyError -/
def pyKGet {κ β : Type} [BEq κ] (d : List (κ × β)) (k : κ) : Option β := (d.find? fun p => p.1 == k).map (·.2)

/-- `k in d` -/
def pyKHas {κ β : Type} [BEq κ] (d : List (κ × β)) (k : κ) : Bool := d.any fun p => p.1 == k

end Cv.Py
