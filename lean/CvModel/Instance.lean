/-
  The concrete graphs `CayleyGraph` builds for a permutation group, as instances of the abstract
  `Cv.Graph` used by the BFS model (definitions only, core Lean only).

  * `encodedPermGraph`  bit-encoded states (`bit_encoding_width = w`): a state is a row of 64-bit words,
                        generator `i` is the compiled mask/shift/or routine for the permutation `p_i`
  * `plainPermGraph`    un-encoded states (`bit_encoding_width = None`): generator `i` is `torch.gather`
  * `permGraphNb`       the mathematical graph on decoded states: `new[j] = old[p[j]]`
  * `identityHash`      the hasher used when the encoded state is a single word
-/
import CvModel.Bfs
import CvModel.Codec
import CvModel.Hash
namespace Cv.Instance

/-- the encoded permutation graph the library builds: states are rows of 64-bit words, generator `i` is the
compiled routine for `p_i` -/
def encodedPermGraph (w n : Nat) (perms : List (List Nat)) (hash : List Cv.Codec.W → Int)
    (invClosed : Bool) (batch : Nat) : Cv.Graph (List Cv.Codec.W) :=
  { nGens := perms.length,
    act := fun i x =>
      Cv.Codec.evalProg (Cv.Codec.compile (perms.getD i []) w n) (Cv.Codec.encLen w n) x,
    hash := hash, invClosed := invClosed, batchSize := batch }

/-- the mathematical graph on decoded states: `new[j] = old[p[j]]` -/
def permGraphNb (perms : List (List Nat)) (s : List Nat) : List (List Nat) :=
  perms.map fun p => p.map fun i => s.getD i 0

/-- the un-encoded graph the library builds for `bit_encoding_width=None` (`torch.gather`) -/
def plainPermGraph (perms : List (List Nat)) (hash : List Nat → Int) (invClosed : Bool) (batch : Nat) :
    Cv.Graph (List Nat) :=
  { nGens := perms.length,
    act := fun i s => (perms.getD i []).map fun j => s.getD j 0,
    hash := hash, invClosed := invClosed, batchSize := batch }

/-- single-word identity hasher -/
def identityHash (x : List Cv.Codec.W) : Int := Cv.Hash.key (Cv.Hash.identity x)

/-- the variant of `encodedPermGraph` for single-word states (`encoded_length == 1`): the library then
generates the 1-D routine `lambda x: t1 | t2 | …` acting on the single column -/
def encodedPermGraph1d (w n : Nat) (perms : List (List Nat)) (hash : List Cv.Codec.W → Int)
    (invClosed : Bool) (batch : Nat) : Cv.Graph (List Cv.Codec.W) :=
  { nGens := perms.length,
    act := fun i x => [Cv.Codec.evalProg1d (Cv.Codec.compile (perms.getD i []) w n) (x.getD 0 0#64)],
    hash := hash, invClosed := invClosed, batchSize := batch }

end Cv.Instance
