/-
  Model of the explicit-graph export of `BfsResult` (algo/bfs_result.py:191-276): vertex numbering by
  layer hashes, edge list, adjacency, vertex names, edge names.  Core Lean only.
-/
import CvModel.Bfs
namespace Cv

variable {α : Type}

/-- `hashes_to_indices_dict`: hash -> running index over the layers in order (a later duplicate would
overwrite; the code asserts there is none: `len(ans) == n`) -/
def hashesToIndices (layersHashes : List (List Int)) : Option (List (Int × Nat)) :=
  let flat := layersHashes.flatten
  let pairs := flat.zip (List.range flat.length)
  if (flat.eraseDups).length == flat.length then some pairs else none

def lookupIdx (tab : List (Int × Nat)) (h : Int) : Option Nat := (tab.find? fun p => p.1 == h).map (·.2)

/-- `edges_list`: rows of `edges_list_hashes` renumbered; `none` when a hash is unknown (KeyError) or the
result has no hashes / edges -/
def edgesList (r : BfsOut α) : Option (List (Nat × Nat)) :=
  match r.edges with
  | none => none
  | some es =>
    if r.hashes.length != r.layerSizes.length then none else
    match hashesToIndices r.hashes with
    | none => none
    | some tab => es.mapM fun e =>
        match lookupIdx tab e.1, lookupIdx tab e.2 with
        | some a, some b => some (a, b)
        | _, _ => none

/-- `adjacency_matrix()[i][j]` -/
def adjacency (edges : List (Nat × Nat)) (i j : Nat) : Bool := edges.contains (i, j)

/-- `all_states`: the stored layers stacked in layer order; `none` unless every layer was stored -/
def allStates (r : BfsOut α) : Option (List α) :=
  if r.layers.length != r.layerSizes.length then none
  else (List.range r.layerSizes.length).foldlM (fun acc i =>
    match r.layers.find? (fun p => p.1 == i) with
    | some p => some (acc ++ p.2)
    | none => none) []

/-- `BfsResult.vertex_name` for a vector state -/
def vertexName (state : List Int) : String :=
  let delim := if state.all (· ≤ 9) then "" else ","
  delim.intercalate (state.map toString)

/-- `get_edge_name`: the first generator mapping `s1` to `s2` -/
def edgeGen [DecidableEq α] (g : Graph α) (s1 s2 : α) : Option Nat :=
  (List.range g.nGens).find? fun i => g.act i s1 == s2

end Cv
