/-
  Closed-form SPECIFICATION of the library graph families of `cayleypy/graphs_lib.py`
  (`PermutationGroups`, `MatrixGroups`, `prepare_graph`).  Core Lean only.

  Every family is written from its docstring / mathematical description:
    * a generator is a one-line permutation `oneLine len f = [f 0, f 1, …, f (len-1)]` given by a point
      function `f` (transposition, reversal of a segment, shift, cycle, …) — action convention of the
      library: `new[i] = old[p[i]]`;
    * the generators of a family are indexed by an explicit index list (`range`, pairs `i<j` in
      lexicographic order, …) and their names are string functions of the index;
    * `none` = the parameters are outside the range for which the library returns a definition
      (it asserts or raises).
  Nothing here imitates the Python loops that build the index lists.
-/
import CvModel.GraphDef
namespace Cv.Families
open Cv.GraphDef (PermDef)

/-! ## one-line permutations and point functions -/

/-- the one-line list `[f 0, …, f (n-1)]` -/
def oneLine (n : Nat) (f : Nat → Nat) : List Nat := (List.range n).map f

/-- a family: one generator `oneLine len (g x)` named `nm x` for every index `x` of `idx`;
central state = identity of length `len` -/
def mk {ι : Type} (len : Nat) (idx : List ι) (g : ι → Nat → Nat) (nm : ι → String)
    (name : String) : PermDef :=
  { gens := idx.map fun x => oneLine len (g x)
    names := idx.map nm
    central := List.range len
    name := name }

/-- transposition `(i j)` -/
def swapFn (i j p : Nat) : Nat := if p = i then j else if p = j then i else p

/-- reversal of the segment `i..j` (inclusive) -/
def revFn (i j p : Nat) : Nat := if i ≤ p ∧ p ≤ j then i + j - p else p

/-- reversal of the first `k` positions -/
def prefixRevFn (k p : Nat) : Nat := if p < k then k - 1 - p else p

/-- cyclic shift left: position `p` receives element `p+1` -/
def shiftLFn (n p : Nat) : Nat := (p + 1) % n

/-- cyclic shift right: position `p` receives element `p-1` -/
def shiftRFn (n p : Nat) : Nat := (p + (n - 1)) % n

/-- the substring `i..j-1` is moved behind the substring `j..k` -/
def transposonFn (i j k p : Nat) : Nat :=
  if p < i then p
  else if p < i + (k + 1 - j) then p - i + j
  else if p ≤ k then p - (k + 1 - j)
  else p

/-- the substrings `i..j-1` and `k..l-1` are interchanged (the part `j..k-1` between them stays
between them) -/
def interchangeFn (i j k l p : Nat) : Nat :=
  if p < i then p
  else if p < i + (l - k) then p - i + k
  else if p < i + (l - k) + (k - j) then p - (i + (l - k)) + j
  else if p < l then p - (i + (l - k) + (k - j)) + i
  else p

/-- signed reversal of the elements `i..j` of `n` two-sided elements: index `q < n` is the bottom side
of element `q`, index `n+q` its top side; the segment is reversed and every element in it is flipped -/
def signedRevFn (n i j p : Nat) : Nat :=
  if p < n then (if i ≤ p ∧ p ≤ j then n + (i + j - p) else p)
  else (if i ≤ p - n ∧ p - n ≤ j then i + j - (p - n) else p)

/-- the 3-cycle `(a b c)`: `a ↦ b ↦ c ↦ a` -/
def cyc3Fn (a b c p : Nat) : Nat := if p = a then b else if p = b then c else if p = c then a else p

/-- the cycle `(i, i+1, …, i+k-1)` -/
def rangeCycleFn (i k p : Nat) : Nat :=
  if i ≤ p ∧ p + 1 < i + k then p + 1 else if p + 1 = i + k then i else p

/-- inverse of `rangeCycleFn` -/
def rangeCycleInvFn (i k p : Nat) : Nat :=
  if i < p ∧ p < i + k then p - 1 else if p = i ∧ 0 < k then i + k - 1 else p

/-- the cycle `(s, s+1, …, s+k-1)` with entries taken modulo `n` -/
def wrappedCycleFn (n s k p : Nat) : Nat :=
  if (p + n - s) % n + 1 < k then (p + 1) % n else if (p + n - s) % n + 1 = k then s else p

/-- the cycle `(c₀ c₁ … c_{m-1})` given by a list: `c_t ↦ c_{t+1 mod m}` -/
def cycleFn (c : List Nat) (p : Nat) : Nat :=
  if c.idxOf p < c.length then c.getD ((c.idxOf p + 1) % c.length) p else p

/-- the product of the adjacent transpositions `(q, q+1)` with `q ≡ r (mod 2)`, `r ≤ q`, `q+1 < m` -/
def adjSwapsFn (r m p : Nat) : Nat :=
  if p < r then p
  else if (p - r) % 2 = 0 then (if p + 1 < m then p + 1 else p)
  else (if p < m then p - 1 else p)

/-! ## index lists -/

/-- pairs `i < j < n` in lexicographic order -/
def pairsLt (n : Nat) : List (Nat × Nat) :=
  (List.range n).flatMap fun i => (List.range' (i + 1) (n - (i + 1))).map fun j => (i, j)

/-- pairs `i ≤ j < n` in lexicographic order -/
def pairsLe (n : Nat) : List (Nat × Nat) :=
  (List.range n).flatMap fun i => (List.range' i (n - i)).map fun j => (i, j)

/-- triples `i < j ≤ k < n` in lexicographic order -/
def triplesT (n : Nat) : List (Nat × Nat × Nat) :=
  (pairsLt n).flatMap fun ij => (List.range' ij.2 (n - ij.2)).map fun k => (ij.1, ij.2, k)

/-- quadruples `i < j ≤ k < l ≤ n` in lexicographic order -/
def quadsI (n : Nat) : List (Nat × Nat × Nat × Nat) :=
  (triplesT n).flatMap fun t =>
    (List.range' (t.2.2 + 1) (n - t.2.2)).map fun l => (t.1, t.2.1, t.2.2, l)

/-- pairs `i < k ≤ j < n` in lexicographic order -/
def pairsSplit (n k : Nat) : List (Nat × Nat) :=
  (List.range k).flatMap fun i => (List.range' k (n - k)).map fun j => (i, j)

/-- pairs `(i, j)`, `1 ≤ i, j < n`, `i ≠ j`, in lexicographic order -/
def pairsNe1 (n : Nat) : List (Nat × Nat) :=
  (List.range' 1 (n - 1)).flatMap fun i =>
    ((List.range' 1 (n - 1)).filter fun j => j != i).map fun j => (i, j)

/-- triples `(a, b, c)` of distinct numbers `< n` with `a` the smallest, in lexicographic order -/
def triplesMinFirst (n : Nat) : List (Nat × Nat × Nat) :=
  (pairsLt n).flatMap fun ab =>
    ((List.range' (ab.1 + 1) (n - (ab.1 + 1))).filter fun c => c != ab.2).map fun c => (ab.1, ab.2, c)

/-! ## names -/

def showNat (n : Nat) : String := toString n

/-- `"(" + sep.join(map(str, l)) + ")"` -/
def tupleName (sep : String) (l : List Nat) : String :=
  "(" ++ sep.intercalate (l.map showNat) ++ ")"

/-! ## permutation families (`PermutationGroups`) -/

/-- all `n(n-1)/2` transpositions -/
def allTranspositions (n : Nat) : Option PermDef :=
  if 2 ≤ n then
    some (mk n (pairsLt n) (fun x => swapFn x.1 x.2) (fun x => s!"({x.1},{x.2})") "")
  else none

/-- transpositions of all substrings to all places -/
def transposons (n : Nat) : Option PermDef :=
  if 2 ≤ n then
    some (mk n (triplesT n) (fun x => transposonFn x.1 x.2.1 x.2.2)
      (fun x => s!"T[{x.1}..{x.2.1 - 1},{x.2.2}]") "")
  else none

/-- interchanges of all pairs of substrings -/
def blockInterchange (n : Nat) : Option PermDef :=
  if 2 ≤ n then
    some (mk n (quadsI n) (fun x => interchangeFn x.1 x.2.1 x.2.2.1 x.2.2.2)
      (fun x => s!"I[{x.1}..{x.2.1 - 1},{x.2.2.1}..{x.2.2.2 - 1}]") "")
  else none

/-- reversals of all `n(n-1)/2` substrings of length `≥ 2` -/
def fullReversals (n : Nat) : Option PermDef :=
  if 2 ≤ n then
    some (mk n (pairsLt n) (fun x => revFn x.1 x.2) (fun x => s!"R[{x.1}..{x.2}]") "")
  else none

/-- signed reversals of all `n(n+1)/2` substrings, acting on `2n` sides -/
def signedReversals (n : Nat) : Option PermDef :=
  if 1 ≤ n then
    some (mk (2 * n) (pairsLe n) (fun x => signedRevFn n x.1 x.2) (fun x => s!"R[{x.1}..{x.2}]") "")
  else none

/-- L = shift left, R = shift right, X = transposition `(0 k)` -/
def lrx (n k : Nat) : Option PermDef :=
  if 3 ≤ n ∧ 1 ≤ k ∧ k < n then
    some { gens := [oneLine n (shiftLFn n), oneLine n (shiftRFn n), oneLine n (swapFn 0 k)]
           names := ["L", "R", "X"]
           central := List.range n
           name := "lrx-" ++ showNat n ++ (if k = 1 then "" else "(k=" ++ showNat k ++ ")") }
  else none

/-- L = shift left, X = transposition `(0 1)` -/
def lx (n : Nat) : Option PermDef :=
  if 3 ≤ n then
    some { gens := [oneLine n (shiftLFn n), oneLine n (swapFn 0 1)]
           names := ["L", "X"]
           central := List.range n
           name := "lx-" ++ showNat n }
  else none

/-- shift left, shift right, reversal of the first `k` elements; no explicit generator names, hence the
default names of `CayleyGraphDef.create` -/
def topSpin (n k : Nat) : Option PermDef :=
  if 2 ≤ k ∧ k ≤ n then
    let gens := [oneLine n (shiftLFn n), oneLine n (shiftRFn n), oneLine n (prefixRevFn k)]
    some { gens := gens
           names := gens.map Cv.GraphDef.defaultName
           central := List.range n
           name := "top_spin-" ++ showNat n ++ "-" ++ showNat k }
  else none

/-- adjacent transpositions `(i, i+1)`, `i = 0..n-2` -/
def coxeter (n : Nat) : Option PermDef :=
  if 2 ≤ n then
    some (mk n (List.range (n - 1)) (fun i => swapFn i (i + 1)) (fun i => s!"({i},{i + 1})")
      ("coxeter-" ++ showNat n))
  else none

/-- adjacent transpositions and the cyclic transposition `(0, n-1)` -/
def cyclicCoxeter (n : Nat) : Option PermDef :=
  if 2 ≤ n then
    some (mk n (List.range n)
      (fun i => if i + 1 < n then swapFn i (i + 1) else swapFn 0 (n - 1))
      (fun i => if i + 1 < n then s!"({i},{i + 1})" else s!"(0,{n - 1})")
      ("cyclic_coxeter-" ++ showNat n))
  else none

/-- prefix reversals of lengths `2..n`; `R_i` reverses the elements `0..i` -/
def pancake (n : Nat) : Option PermDef :=
  if 2 ≤ n then
    some (mk n (List.range (n - 1)) (fun t => prefixRevFn (t + 2)) (fun t => "R" ++ showNat (t + 1))
      ("pancake-" ++ showNat n))
  else none

/-- the three prefix lengths of `cubic_pancake(n, subset)` (as integers: `n-3` may be negative) -/
def cubicLengths (n : Nat) (subset : Nat) : Option (List Int) :=
  let n : Int := n
  match subset with
  | 1 => some [n, n - 1, 2]
  | 2 => some [n, n - 1, 3]
  | 3 => some [n, n - 1, n - 2]
  | 4 => some [n, n - 1, n - 3]
  | 5 => some [n, n - 2, 2]
  | 6 => some [n, n - 2, 3]
  | 7 => some [n, n - 2, n - 3]
  | _ => none

/-- three prefix reversals; here `R_i` reverses the first `i` elements.  The library returns a
definition iff every requested prefix length lies in `0..n` -/
def cubicPancake (n subset : Nat) : Option PermDef :=
  match cubicLengths n subset with
  | none => none
  | some ls =>
    if 2 ≤ n ∧ ls.all (fun l => 0 ≤ l ∧ l ≤ (n : Int)) then
      some (mk n ls (fun l => prefixRevFn l.toNat) (fun l => "R" ++ toString l)
        ("cubic_pancake-" ++ showNat n ++ "-" ++ showNat subset))
    else none

/-- burnt pancakes: `R_{t+1}` reverses and flips the first `t+1` of `n` two-sided pancakes -/
def burntPancake (n : Nat) : Option PermDef :=
  if 1 ≤ n then
    some (mk (2 * n) (List.range n) (fun t => signedRevFn n 0 t) (fun t => "R" ++ showNat (t + 1))
      ("burnt_pancake-" ++ showNat n))
  else none

/-- all 3-cycles `(a b c)` with `a < b`, `a < c` -/
def threeCycles (n : Nat) : Option PermDef :=
  if 3 ≤ n then
    some (mk n (triplesMinFirst n) (fun x => cyc3Fn x.1 x.2.1 x.2.2)
      (fun x => s!"({x.1} {x.2.1} {x.2.2})") ("three_cycles-" ++ showNat n))
  else none

/-- all 3-cycles `(0 i j)`, `i ≠ j` -/
def threeCycles0ij (n : Nat) : Option PermDef :=
  if 3 ≤ n then
    some (mk n (pairsNe1 n) (fun x => cyc3Fn 0 x.1 x.2) (fun x => s!"(0 {x.1} {x.2})")
      ("three_cycles_0ij-" ++ showNat n))
  else none

/-- the 3-cycles `(0 1 i)`, `2 ≤ i < n`, each followed by its inverse `(1 0 i)` when `addInverses` -/
def threeCycles01i (n : Nat) (addInverses : Bool) : Option PermDef :=
  if 3 ≤ n then
    if addInverses then
      some (mk n ((List.range' 2 (n - 2)).flatMap fun i => [(i, false), (i, true)])
        (fun x => if x.2 then cyc3Fn 1 0 x.1 else cyc3Fn 0 1 x.1)
        (fun x => if x.2 then s!"(1 0 {x.1})" else s!"(0 1 {x.1})")
        ("three_cycles_01i-" ++ showNat n ++ "-ic"))
    else
      some (mk n (List.range' 2 (n - 2)) (fun i => cyc3Fn 0 1 i) (fun i => s!"(0 1 {i})")
        ("three_cycles_01i-" ++ showNat n))
  else none

/-- all permutations of `0..n-1` in lexicographic order -/
def allPerms (n : Nat) : List (List Nat) := Cv.Perm.permsOf n (List.range n)

def hasFixedPoint (p : List Nat) : Bool := (List.range p.length).any fun i => p.getD i 0 == i

def isInvolution (p : List Nat) : Bool :=
  (List.range p.length).all fun i => p.getD (p.getD i 0) 0 == i

/-- all permutations without fixed points, in lexicographic order; `D<r>` where `r` is the
lexicographic rank of the permutation among all permutations of `0..n-1` -/
def derangements (n : Nat) : Option PermDef :=
  if 2 ≤ n then
    let sel := (allPerms n).zipIdx.filter fun x => !hasFixedPoint x.1
    some { gens := sel.map (·.1)
           names := sel.map fun x => "D" ++ showNat x.2
           central := List.range n
           name := "derangements-" ++ showNat n }
  else none

/-- all involutions without fixed points (`n` even), in lexicographic order, named `ID1, ID2, …` -/
def involutiveDerangements (n : Nat) : Option PermDef :=
  if 2 ≤ n ∧ n % 2 = 0 then
    let sel := (allPerms n).filter fun p => !hasFixedPoint p && isInvolution p
    some { gens := sel
           names := (List.range sel.length).map fun t => "ID" ++ showNat (t + 1)
           central := List.range n
           name := "involutive-derangements-" ++ showNat n }
  else none

/-- star transpositions `(0 i)`, `1 ≤ i < n` -/
def stars (n : Nat) : Option PermDef :=
  if 3 ≤ n then
    some (mk n (List.range' 1 (n - 1)) (fun i => swapFn 0 i) (fun i => "S" ++ showNat i)
      ("stars-" ++ showNat n))
  else none

/-- transpositions `(i j)`, `i < k ≤ j < n` -/
def generalizedStars (n k : Nat) : Option PermDef :=
  if 3 ≤ n ∧ 1 ≤ k ∧ k < n then
    some (mk n (pairsSplit n k) (fun x => swapFn x.1 x.2) (fun x => s!"S{x.1}-{x.2}")
      ("generalized-stars-" ++ showNat n ++ "-" ++ showNat k))
  else none

/-- Rapaport-Strasser M1: `(0 1)(2 3)…(2m-2 2m-1)` for `m = 1..n/2`, then
`(1 2)(3 4)…(2m-1 2m)` for `m = 1..(n-1)/2` -/
def rapaportM1 (n : Nat) : Option PermDef :=
  if 2 ≤ n then
    some (mk n ((List.range (n / 2)).map (fun t => (0, t + 1)) ++
                (List.range ((n - 1) / 2)).map (fun t => (1, t + 1)))
      (fun x => adjSwapsFn x.1 (2 * x.2 + x.1))
      (fun x => s!"M1_{x.1}_{x.2}")
      ("rapaport_m1-" ++ showNat n))
  else none

/-- Rapaport-Strasser M2: `(0 1)`, `(0 1)(2 3)…`, `(1 2)(3 4)…` -/
def rapaportM2 (n : Nat) : Option PermDef :=
  if 2 ≤ n then
    some { gens := [oneLine n (swapFn 0 1), oneLine n (adjSwapsFn 0 n), oneLine n (adjSwapsFn 1 n)]
           names := ["(0,1)", "EvenDisjTrans", "OddDisjTrans"]
           central := List.range n
           name := "rapaport_m2-" ++ showNat n }
  else none

/-- all cycles of length `2..n`: by length, then by support (lexicographic), then by the cycle written
from its minimum (lexicographic) -/
def allCyclesList (n : Nat) : List (List Nat) :=
  (List.range' 2 (n - 1)).flatMap fun k =>
    (Cv.Perm.combinations (List.range n) k).flatMap fun sub =>
      (Cv.Perm.permsOf sub.tail.length sub.tail).map fun o => sub.headD 0 :: o

def allCycles (n : Nat) : Option PermDef :=
  if 2 ≤ n then
    some { gens := (allCyclesList n).map fun c => oneLine n (cycleFn c)
           names := (List.range (allCyclesList n).length).map fun t => "cycle_" ++ showNat (t + 1)
           central := List.range n
           name := "all_cycles-" ++ showNat n }
  else none

/-- the sub-long cycle `(1 2 … n-1)` (0 fixed) and its inverse -/
def subLongFn (n p : Nat) : Nat := rangeCycleFn 1 (n - 1) p
def subLongInvFn (n p : Nat) : Nat := rangeCycleInvFn 1 (n - 1) p

/-- L = long cycle `(0 1 … n-1)`, S = sub-long cycle `(1 2 … n-1)`, optionally their inverses -/
def lslCycles (n : Nat) (addInverses : Bool) : Option PermDef :=
  if 3 ≤ n then
    some { gens := [oneLine n (shiftLFn n), oneLine n (subLongFn n)] ++
                   (if addInverses then [oneLine n (shiftRFn n), oneLine n (subLongInvFn n)] else [])
           names := ["L", "S"] ++ (if addInverses then ["L_inv", "S_inv"] else [])
           central := List.range n
           name := "lsl_cycles-" ++ showNat n }
  else none

/-- the `n` cycles `(s, s+1, …, s+k-1)` mod `n`, `s = 0..n-1` -/
def wrappedKCycles (n k : Nat) : Option PermDef :=
  if 2 ≤ n ∧ 2 ≤ k ∧ k ≤ n then
    some (mk n (List.range n) (fun s => wrappedCycleFn n s k)
      (fun s => tupleName " " ((List.range k).map fun j => (s + j) % n))
      ("wrapped_k_cycles-" ++ showNat n ++ "-" ++ showNat k))
  else none

/-- the transposition `(0 1)` and the cycle `(1 2 … n-1)`; the names are the one-line notations -/
def larx (n : Nat) : Option PermDef :=
  if 2 ≤ n then
    let gens := [oneLine n (swapFn 0 1), oneLine n (subLongFn n)]
    some { gens := gens
           names := gens.map (tupleName " ")
           central := List.range n
           name := "larx-" ++ showNat n }
  else none

/-- all cycles `(c₁ c₂ … c_k)` with `c₁ < c₂ < … < c_k < n`, supports in lexicographic order -/
def increasingKCycles (n k : Nat) : Option PermDef :=
  if 1 ≤ n ∧ 1 ≤ k ∧ k ≤ n then
    some (mk n (Cv.Perm.combinations (List.range n) k) (fun c => cycleFn c) (tupleName ",")
      ("increasing_k_cycles-" ++ showNat n ++ "-" ++ showNat k))
  else none

/-- "S" of sheveleva2: the adjacent transpositions of the parity class of `k-1`, where `(k-1 k)` and
`(k+1 k+2)` are replaced by the 4-cycle `(k-1 k k+1 k+2)` -/
def shevelevaSFn (n k p : Nat) : Nat :=
  if p + 1 = k then k else if p = k then k + 1 else if p = k + 1 then k + 2
  else if p = k + 2 then k - 1 else adjSwapsFn ((k + 1) % 2) n p

/-- "A" of sheveleva2: the adjacent transpositions of the parity class of `k`, where `(k k+1)` and
`(k+2 k+3)` are replaced by `(k+1 k+3)` (just removed when `k+3 = n`) -/
def shevelevaAFn (n k p : Nat) : Nat :=
  if p = k then k else if p = k + 2 then k + 2
  else if p = k + 1 then (if k + 3 < n then k + 3 else k + 1)
  else if p = k + 3 then k + 1 else adjSwapsFn (k % 2) n p

def sheveleva2 (n k : Nat) : Option PermDef :=
  if 1 ≤ k ∧ k + 3 ≤ n then
    some { gens := [oneLine n (shevelevaAFn n k), oneLine n (shevelevaSFn n k)]
           names := ["A", "S"]
           central := List.range n
           name := "sheveleva2-n" ++ showNat n ++ "-k" ++ showNat k }
  else none

/-- I = `(0 1)(2 3)…`, K = `(1 2)(3 4)…`, S = `(k, k+d)` (type 1) or `(k, k+3)(k+1, k+2)` (type 2) -/
def koltsov3 (n permType k d : Nat) : Option PermDef :=
  if k < n ∧ ((permType = 1 ∧ k + d < n) ∨ (permType = 2 ∧ k + 3 < n)) then
    some { gens := [oneLine n (adjSwapsFn 0 n), oneLine n (adjSwapsFn 1 n),
                    oneLine n (if permType = 1 then swapFn k (k + d) else revFn k (k + 3))]
           names := ["I", "K", "S"]
           central := List.range n
           name := "koltsov3-n" ++ showNat n ++ "-k" ++ showNat k }
  else none

/-- the cycles `(i, i+1, …, i+k-1)`, `i = 0..n-k` -/
def consecutiveKCycles (n k : Nat) : Option PermDef :=
  if 1 ≤ n ∧ 1 ≤ k ∧ k ≤ n then
    some (mk n (List.range (n - k + 1)) (fun i => rangeCycleFn i k)
      (fun i => tupleName "," (List.range' i k))
      ("consecutive_k_cycles-" ++ showNat n ++ "-" ++ showNat k))
  else none

/-- the cycles `(i, i+1, …, j)`, `0 ≤ i < j < n` -/
def downCycles (n : Nat) : Option PermDef :=
  if 2 ≤ n then
    some (mk n (pairsLt n) (fun x => rangeCycleFn x.1 (x.2 + 1 - x.1))
      (fun x => tupleName "," (List.range' x.1 (x.2 + 1 - x.1)))
      ("down_cycles-" ++ showNat n))
  else none

/-- the cycles `(0 1 … j-1)`, `j = 2..n` -/
def prefixCycles (n : Nat) : Option PermDef :=
  if 2 ≤ n then
    some (mk n (List.range' 2 (n - 1)) (fun j => rangeCycleFn 0 j)
      (fun j => tupleName "," (List.range j))
      ("prefix_cycles-" ++ showNat n))
  else none

/-! ## dispatch by constructor name -/

/-- constructor arguments -/
inductive Param
  | nat (v : Nat)
  | flag (b : Bool)
  | lens (l : List (List Nat))
deriving Repr, BEq

/-- argument dispatch for a constructor with one integer argument -/
def args1 (f : Nat → Option PermDef) (args : List Nat) (flags : List Bool) : Option PermDef :=
  match args, flags with
  | [n], [] => f n
  | _, _ => none

/-- two integer arguments, the second one with a default value -/
def args2d (f : Nat → Nat → Option PermDef) (dflt : Nat) (args : List Nat) (flags : List Bool) :
    Option PermDef :=
  match args, flags with
  | [n], [] => f n dflt
  | [n, k], [] => f n k
  | _, _ => none

/-- two mandatory integer arguments -/
def args2 (f : Nat → Nat → Option PermDef) (args : List Nat) (flags : List Bool) : Option PermDef :=
  match args, flags with
  | [n, k], [] => f n k
  | _, _ => none

/-- one integer argument and the boolean `add_inverses` (default `True`) -/
def args1f (f : Nat → Bool → Option PermDef) (args : List Nat) (flags : List Bool) : Option PermDef :=
  match args, flags with
  | [n], [] => f n true
  | [n], [b] => f n b
  | _, _ => none

/-- `koltsov3(n, perm_type=2, k=1, d=1)` -/
def argsKoltsov (args : List Nat) (flags : List Bool) : Option PermDef :=
  match args, flags with
  | [n], [] => koltsov3 n 2 1 1
  | [n, t], [] => koltsov3 n t 1 1
  | [n, t, k], [] => koltsov3 n t k 1
  | [n, t, k, d], [] => koltsov3 n t k d
  | _, _ => none

/-- `PermutationGroups.<fam>(*args, <flags>)`; omitted trailing arguments take the Python defaults;
`none` = outside the documented range / the code asserts or raises (or unknown `fam`) -/
def permFamily (fam : String) (args : List Nat) (flags : List Bool := []) : Option PermDef :=
  if fam = "all_transpositions" then args1 allTranspositions args flags
  else if fam = "transposons" then args1 transposons args flags
  else if fam = "block_interchange" then args1 blockInterchange args flags
  else if fam = "full_reversals" then args1 fullReversals args flags
  else if fam = "signed_reversals" then args1 signedReversals args flags
  else if fam = "lrx" then args2d lrx 1 args flags
  else if fam = "lx" then args1 lx args flags
  else if fam = "top_spin" then args2d topSpin 4 args flags
  else if fam = "coxeter" then args1 coxeter args flags
  else if fam = "cyclic_coxeter" then args1 cyclicCoxeter args flags
  else if fam = "pancake" then args1 pancake args flags
  else if fam = "cubic_pancake" then args2 cubicPancake args flags
  else if fam = "burnt_pancake" then args1 burntPancake args flags
  else if fam = "three_cycles" then args1 threeCycles args flags
  else if fam = "three_cycles_0ij" then args1 threeCycles0ij args flags
  else if fam = "three_cycles_01i" then args1f threeCycles01i args flags
  else if fam = "derangements" then args1 derangements args flags
  else if fam = "involutive_derangements" then args1 involutiveDerangements args flags
  else if fam = "stars" then args1 stars args flags
  else if fam = "generalized_stars" then args2d generalizedStars 1 args flags
  else if fam = "rapaport_m1" then args1 rapaportM1 args flags
  else if fam = "rapaport_m2" then args1 rapaportM2 args flags
  else if fam = "all_cycles" then args1 allCycles args flags
  else if fam = "lsl_cycles" then args1f lslCycles args flags
  else if fam = "wrapped_k_cycles" then args2 wrappedKCycles args flags
  else if fam = "larx" then args1 larx args flags
  else if fam = "increasing_k_cycles" then args2 increasingKCycles args flags
  else if fam = "sheveleva2" then args2 sheveleva2 args flags
  else if fam = "koltsov3" then argsKoltsov args flags
  else if fam = "consecutive_k_cycles" then args2 consecutiveKCycles args flags
  else if fam = "down_cycles" then args1 downCycles args flags
  else if fam = "prefix_cycles" then args1 prefixCycles args flags
  else none

/-! ### `conjugacy_classes` (deterministic part) and the heterogeneous argument list -/

/-- insertion into a decreasingly sorted list -/
def insertDesc (a : Nat) : List Nat → List Nat
  | [] => [a]
  | b :: t => if b ≤ a then a :: b :: t else b :: insertDesc a t

/-- `sorted(l, reverse=True)` -/
def sortDesc (l : List Nat) : List Nat := l.foldr insertDesc []

/-- `PermutationGroups.conjugacy_classes(n, {c: None for c in classes})`: for every class (a tuple of
cycle lengths with sum `≤ n`, padded with 1-cycles and sorted decreasingly) ALL permutations of that
cycle type, in the order of `permutations_with_cycle_lenghts` (modelled in `CvModel/Perm.lean`), named
`(<lengths>)_<i>`.  Random sampling (`n_samples` not `None`) is not modelled.  A Python `dict` has
distinct keys: repeated classes are dropped. -/
def conjugacyClasses (n : Nat) (classes : List (List Nat)) : Option PermDef :=
  let classes := classes.eraseDups
  if 1 ≤ n ∧ classes.all (fun c => c.all (0 < ·) && c.sum ≤ n) then
    let full := classes.map fun c =>
      sortDesc (c ++ List.replicate (n - c.sum) 1)
    match full.mapM fun ls => Cv.Perm.permutationsWithCycleLengths n ls with
    | none => none
    | some perClass =>
      let labels := full.map fun ls => ",".intercalate (ls.map showNat)
      let gens := perClass.flatten
      if gens.isEmpty then none else
      some { gens := gens
             names := (List.zip labels perClass).flatMap fun x =>
               (List.range x.2.length).map fun i => "(" ++ x.1 ++ ")_" ++ showNat (i + 1)
             central := List.range n
             name := "conjugacy_class-" ++ showNat n ++ "-" ++ "-".intercalate labels }
  else none

def Param.nat? : Param → Option Nat
  | .nat v => some v
  | _ => none

def Param.flag? : Param → Option Bool
  | .flag b => some b
  | _ => none

def Param.isLens : Param → Bool
  | .lens _ => true
  | _ => false

/-- constructor call with a heterogeneous argument list: integers and flags in the order of the Python
signature; `lens` is the key list of the `classes` dict of `conjugacy_classes` (all values `None`) -/
def permFamilyP (fam : String) (ps : List Param) : Option PermDef :=
  if fam = "conjugacy_classes" then
    match ps with
    | [.nat n, .lens cls] => conjugacyClasses n cls
    | _ => none
  else if ps.any Param.isLens then none
  else permFamily fam (ps.filterMap Param.nat?) (ps.filterMap Param.flag?)

/-! ## matrix families (`MatrixGroups`) -/

/-- row-major matrices; entries as the library stores them (reduced mod `modulo` when `modulo > 0`) -/
structure MatDef where
  n : Nat
  modulo : Nat
  gens : List (List Int)
  names : List String
  central : List Int
  name : String
deriving BEq, Repr

/-- entry as stored: reduced into `0..modulo-1` when `modulo > 0` -/
def red (modulo : Nat) (x : Int) : Int := if modulo = 0 then x else x % (modulo : Int)

/-- the row-major `n×n` matrix with entries `f i j` -/
def matOf (n modulo : Nat) (f : Nat → Nat → Int) : List Int :=
  (List.range (n * n)).map fun t => red modulo (f (t / n) (t % n))

/-- identity matrix -/
def eyeFn (i j : Nat) : Int := if i = j then 1 else 0

/-- identity plus `c` at position `(a, b)` (`a ≠ b`) -/
def elemFn (a b : Nat) (c : Int) (i j : Nat) : Int :=
  if i = a ∧ j = b then c else eyeFn i j

/-- admissible modulo of a `MatrixGenerator` -/
def moduloOk (modulo : Nat) : Bool := modulo = 0 || (2 ≤ modulo && modulo ≤ 2 ^ 31)

def moduloSuffix (modulo : Nat) : String := if modulo = 0 then "" else "%" ++ showNat modulo

/-- Heisenberg group: `x_i = I + E(0,i)`, `y_i = I + E(i,n-1)`, `1 ≤ i ≤ n-2`; with `addInverses` the
inverses `x_i' = I - E(0,i)`, `y_i' = I - E(i,n-1)` are appended — unless `modulo = 2`, where every
generator is its own inverse and nothing is added -/
def heisenberg (n modulo : Nat) (addInverses : Bool) : Option MatDef :=
  if 3 ≤ n ∧ moduloOk modulo then
    let idx := List.range' 1 (n - 2)
    let nm := fun (s : String) (i : Nat) => if n = 3 then s else s ++ showNat i
    let xs := fun (c : Int) => idx.map fun i => matOf n modulo (elemFn 0 i c)
    let ys := fun (c : Int) => idx.map fun i => matOf n modulo (elemFn i (n - 1) c)
    let base := "heisenberg-" ++ showNat n ++ moduloSuffix modulo
    let names := idx.map (nm "x") ++ idx.map (nm "y")
    if addInverses ∧ modulo ≠ 2 then
      some { n := n, modulo := modulo
             gens := xs 1 ++ ys 1 ++ xs (-1) ++ ys (-1)
             names := names ++ names.map (· ++ "'")
             central := matOf n 0 eyeFn
             name := base ++ "-ic" }
    else
      some { n := n, modulo := modulo
             gens := xs 1 ++ ys 1
             names := names
             central := matOf n 0 eyeFn
             name := base }
  else none

/-- SL(n): fundamental roots `e_k = I + E(k-1,k)`, `f_k = I + E(k,k-1)` (`k = 1..n-1`) and their
inverses, in the order `e_k, e_k', f_k, f_k'` -/
def slFundRoots (n modulo : Nat) : Option MatDef :=
  if 2 ≤ n ∧ moduloOk modulo then
    some { n := n, modulo := modulo
           gens := (List.range (n - 1)).flatMap fun k =>
             [matOf n modulo (elemFn k (k + 1) 1), matOf n modulo (elemFn k (k + 1) (-1)),
              matOf n modulo (elemFn (k + 1) k 1), matOf n modulo (elemFn (k + 1) k (-1))]
           names := (List.range (n - 1)).flatMap fun k =>
             [s!"e{k + 1}", s!"e{k + 1}'", s!"f{k + 1}", s!"f{k + 1}'"]
           central := matOf n 0 eyeFn
           name := "sl_fund_roots-" ++ showNat n ++ moduloSuffix modulo }
  else none

/-- the lift of the Coxeter element: ones on the superdiagonal and `(-1)^(n-1)` in the lower left
corner -/
def weylFn (n i j : Nat) : Int :=
  if j = i + 1 then 1 else if i = n - 1 ∧ j = 0 then (if n % 2 = 1 then 1 else -1) else 0

/-- SL(n): root element `e = I + E(0,1)`, its inverse, the Weyl element `w` and its transpose -/
def slRootWeyl (n modulo : Nat) : Option MatDef :=
  if 2 ≤ n ∧ moduloOk modulo then
    some { n := n, modulo := modulo
           gens := [matOf n modulo (elemFn 0 1 1), matOf n modulo (elemFn 0 1 (-1)),
                    matOf n modulo (weylFn n), matOf n modulo (fun i j => weylFn n j i)]
           names := ["e", "e'", "w", "w'"]
           central := matOf n 0 eyeFn
           name := "sl_root_weyl-" ++ showNat n ++ moduloSuffix modulo }
  else none

/-- `MatrixGroups.<fam>`; `args = [n]` or `[n, modulo]` (default modulo 0; `heisenberg` with no
arguments has `n = 3`), `flags = [add_inverses]` for `heisenberg` (default `true`) -/
def matFamily (fam : String) (args : List Nat) (flags : List Bool := []) : Option MatDef :=
  match fam, args, flags with
  | "heisenberg", [], [] => heisenberg 3 0 true
  | "heisenberg", [n], [] => heisenberg n 0 true
  | "heisenberg", [n, m], [] => heisenberg n m true
  | "heisenberg", [], [b] => heisenberg 3 0 b
  | "heisenberg", [n], [b] => heisenberg n 0 b
  | "heisenberg", [n, m], [b] => heisenberg n m b
  | "special_linear_fundamental_roots", [n], [] => slFundRoots n 0
  | "special_linear_fundamental_roots", [n, m], [] => slFundRoots n m
  | "special_linear_root_weyl", [n], [] => slRootWeyl n 0
  | "special_linear_root_weyl", [n, m], [] => slRootWeyl n m
  | _, _, _ => none

/-! ## lookup by name (`prepare_graph`) -/

/-- whitespace stripped by Python's `int(str)`: ASCII `\t \n \v \f \r` and space, and the non-ASCII
Unicode spaces -/
def isPySpace (c : Char) : Bool :=
  let v := c.toNat
  (9 ≤ v && v ≤ 13) || v = 32 || v = 0x85 || v = 0xA0 || v = 0x1680 ||
  (0x2000 ≤ v && v ≤ 0x200A) || v = 0x2028 || v = 0x2029 || v = 0x202F || v = 0x205F || v = 0x3000

/-- code points of the digit zero of every Unicode (15.0) decimal digit block `Nd` (each block is ten
consecutive code points `0..9`); Python's `int` accepts all of them -/
def decimalZeros : List Nat :=
  [0x30, 0x660, 0x6f0, 0x7c0, 0x966, 0x9e6, 0xa66, 0xae6, 0xb66, 0xbe6, 0xc66, 0xce6, 0xd66, 0xde6,
   0xe50, 0xed0, 0xf20, 0x1040, 0x1090, 0x17e0, 0x1810, 0x1946, 0x19d0, 0x1a80, 0x1a90, 0x1b50, 0x1bb0,
   0x1c40, 0x1c50, 0xa620, 0xa8d0, 0xa900, 0xa9d0, 0xa9f0, 0xaa50, 0xabf0, 0xff10, 0x104a0, 0x10d30,
   0x11066, 0x110f0, 0x11136, 0x111d0, 0x112f0, 0x11450, 0x114d0, 0x11650, 0x116c0, 0x11730, 0x118e0,
   0x11950, 0x11c50, 0x11d50, 0x11da0, 0x11f50, 0x16a60, 0x16ac0, 0x16b50, 0x1d7ce, 0x1d7d8, 0x1d7e2,
   0x1d7ec, 0x1d7f6, 0x1e140, 0x1e2f0, 0x1e4f0, 0x1e950, 0x1fbf0]

/-- value of a decimal digit character -/
def decDigit? (c : Char) : Option Nat :=
  (decimalZeros.find? fun z => z ≤ c.toNat && c.toNat < z + 10).map fun z => c.toNat - z

/-- digits with single underscores between digits (`prev` = the previous character was a digit);
returns the digit values -/
def stripUnderscores : Bool → List Char → Option (List Nat)
  | prev, [] => if prev then some [] else none
  | prev, c :: t =>
    match decDigit? c with
    | some v => (stripUnderscores true t).map (v :: ·)
    | none => if c = '_' ∧ prev then stripUnderscores false t else none

def digitsValue (ds : List Nat) : Nat := ds.foldl (fun a v => 10 * a + v) 0

/-- Python `int(s)` (base 10): optional surrounding whitespace, optional sign, decimal digits with
single underscores between them -/
def pyInt (cs : List Char) : Option Int :=
  let cs := (cs.dropWhile isPySpace).reverse.dropWhile isPySpace |>.reverse
  match cs with
  | '-' :: t => (stripUnderscores false t).map fun ds => - (digitsValue ds : Int)
  | '+' :: t => (stripUnderscores false t).map fun ds => (digitsValue ds : Int)
  | t => (stripUnderscores false t).map fun ds => (digitsValue ds : Int)

/-- the argument `int(name[len(prefix):])` as a constructor argument: negative values are rejected by
every constructor's range assertion -/
def pyIntNat (cs : List Char) : Option Nat :=
  match pyInt cs with
  | some (Int.ofNat m) => some m
  | _ => none

/-- `prepare_graph(name, n=n, k=k)` for the names that are served by `PermutationGroups` constructors.
`none` = the call raises — or the name belongs to the part of `prepare_graph` that is not modelled
(puzzles, `conjugacy_class`, `rand_generators`). -/
def lookup (name : String) (n : Nat) (k : Option Nat := none) : Option PermDef :=
  if name = "lx" then permFamily "lx" [n]
  else match name.toList with
  | 'l' :: 'x' :: '-' :: rest => (pyIntNat rest).bind fun m => permFamily "lx" [m]
  | cs =>
    if name = "lrx" then permFamily "lrx" [n]
    else match cs with
    | 'l' :: 'r' :: 'x' :: '-' :: rest => (pyIntNat rest).bind fun m => permFamily "lrx" [m]
    | _ =>
      if name = "top_spin" then permFamily "top_spin" [n]
      else if name = "all_transpositions" then permFamily "all_transpositions" [n]
      else if name = "transposons" then permFamily "transposons" [n]
      else if name = "block_interchange" then permFamily "block_interchange" [n]
      else if name = "full_reversals" then permFamily "full_reversals" [n]
      else if name = "coxeter" then permFamily "coxeter" [n]
      else if name = "pancake" then permFamily "pancake" [n]
      else if name = "all_cycles" then permFamily "all_cycles" [n]
      else if name = "lsl_cycles" then permFamily "lsl_cycles" [n]
      else if name = "larx" then permFamily "larx" [n]
      else if name = "01i" then permFamily "three_cycles_01i" [n]
      else if name = "increasing_k_cycles" then k.bind fun k => permFamily "increasing_k_cycles" [n, k]
      else if name = "consecutive_k_cycles" then k.bind fun k => permFamily "consecutive_k_cycles" [n, k]
      else if name = "down_cycles" then permFamily "down_cycles" [n]
      else if name = "prefix_cycles" then permFamily "prefix_cycles" [n]
      else none

end Cv.Families
