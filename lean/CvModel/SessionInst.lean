/-
  The session model of `CvModel/Session.lean` (property C14) with the REAL algorithm models plugged in, for bit-encoded
  permutation graphs.  Definitions only, core Lean only.

  `Cv.Session` leaves WHAT an operation computes as a parameter (`Compute`).  Here that parameter is filled in:
    * a definition (`SDef`) is the generator list, the (decoded) central state and the flag `generators_inverse_closed`;
      the encoder parameters are the width and the state length, the hasher is the hash function itself;
    * the graph an object stands for is `graphOf` = `Cv.Instance.encodedPermGraph` of its immutable part;
    * `definition.with_inverted_generators()` replaces every generator by its inverse (same order, same central state;
      the recomputed flag has the same value, `Cv.Instance.inverted_flag_eq`);
    * every semantic function calls the existing algorithm model (`Cv.bfs`, `Cv.findPathTo`, `Cv.findPathFrom`,
      `Cv.mitmFindPathTo`, `Cv.mitmFindPathFrom`, `Cv.findPathBetween`, `Cv.beamSimple`, `Cv.beamAdvanced`,
      `Cv.applyPath`, `Cv.walks…`) on `graphOf` of the object, and — where the code reaches for
      `self.with_inverted_generators` — on `graphOf` of the inverted copy IT FINDS IN THE SESSION (the head of the chain
      `Cv.Session.touchChain` hands over), never on a copy it builds itself.
  The bookkeeping (object allocation, the cached inverted copy, the ball of `find_path` cached with its key, copies
  sharing encoder and hasher, the un-keyed variant `stepWith false`) is `Cv.Session.stepWith`, unchanged.

  `find_path` on an object, as `Cv.Session.stepWith` runs it:
    inverse-closed:  ball := cached ball of the object (key = limits) or `bfs` with the options of `_precompute_bfs`;
                     `MeetInTheMiddle.find_path_from(graph, start, ball)` with the cached inverted copy;
    otherwise:       the inverted copy `gi` (cached); ball cached on `gi`; `MeetInTheMiddle.find_path_to(gi, start, ball)`
                     with `gi.with_inverted_generators` (an object of its own: generators inverted twice), reversed.
  `Cv.findPath g gi` (`CvModel/Paths.lean`) is the same computation with `g` in the place of `gi.with_inverted_generators`;
  for lists of permutations the two coincide (`CvProofs/SessionInst.lean`).

  Depths (how far down the chain graph → inverted copy → its inverted copy an operation reaches) are upper bounds of what
  the code touches: 1 for `find_path_to` / `find_path_from` / `search_simple`, 2 for the MITM routines (`graph_inv.restore_path`
  evaluates `graph_inv.with_inverted_generators`), 0 otherwise.  The answers do not depend on them.

  Not modelled: the tag `bfs_result.graph == self.definition` checked by `find_path_to` (a ball is its `layers_hashes`);
  pre-trained predictors (`hasModel` is `false`: `CvModel/Paths.lean` `findPath` is the branch without a model).
-/
import CvModel.Session
import CvModel.InstancePaths
import CvModel.Beam
namespace Cv.SessionInst
open Cv Cv.Session Cv.Instance Cv.Codec

/-- a permutation-group definition: generators, central state (decoded), flag `generators_inverse_closed` -/
structure SDef where
  perms : List (List Nat)
  central : List Nat
  ic : Bool
deriving Repr, DecidableEq

/-- encoder parameters: `bit_encoding_width` and the state length -/
structure EncP where
  w : Nat
  n : Nat
deriving Repr, DecidableEq

/-- the hasher: the hash function itself (seed included) -/
abbrev HashFn := List W → Int

abbrev IImm := Imm SDef EncP HashFn

/-- `definition.with_inverted_generators()` -/
def SDef.inverted (d : SDef) : SDef := { d with perms := d.perms.map Cv.Perm.inverse }

/-- the graph the algorithms see for an object with immutable part `i` -/
def graphOf (i : IImm) : Graph (List W) :=
  encodedPermGraph i.enc.w i.enc.n i.defn.perms i.hasher i.defn.ic i.batch

/-- `encode_states` of the object -/
def encOf (i : IImm) (s : List Nat) : List W := encode i.enc.w i.enc.n s
def decOf (i : IImm) (x : List W) : List Nat := decode i.enc.w i.enc.n x

/-- the encoded central state -/
def centralOf (i : IImm) : List W := encOf i i.defn.central

/-- user-supplied arguments -/
inductive IArg where
  /-- `bfs(start_states=…, **cfg)`; `none`: the central state -/
  | bfs (cfg : BfsCfg (List W)) (starts : Option (List (List Nat)))
  /-- a state (`start_state` of `find_path`) -/
  | state (s : List Nat)
  /-- `find_path_to(q, ball)`; the ball is `bfs(max_diameter=D, return_all_hashes=True)` computed on the spot (`some D`) or
  the result the caller holds (`none`) -/
  | pathTo (q : List Nat) (D : Option Nat)
  | pathFrom (q : List Nat) (D : Option Nat)
  /-- `MeetInTheMiddle.find_path_to(graph, q, ball)` -/
  | mitmTo (q : List Nat) (D : Option Nat)
  | mitmFrom (q : List Nat) (D : Option Nat)
  /-- `MeetInTheMiddle.find_path_between(graph, S, T, M)` -/
  | between (S T : List (List Nat)) (M : Nat)
  /-- `beam_search(start_state=…, …)` simple mode; the oracle `select` stands for the predictor -/
  | beamSimple (start : List Nat) (cfg : SimpleCfg (List W))
  | beamAdvanced (start dest : List Nat) (cfg : AdvCfg (List W))
  /-- `apply_path(s, p)` -/
  | applyPath (s : List Nat) (p : List Nat)
  | walksClassic (width length : Nat) (start : List Nat)
  | walksBfs (width length : Nat) (start : List Nat)
  | walksNbt (width length historyDepth : Nat) (start : List Nat)
  /-- recorded random draws -/
  | draws (d : List (List Nat))
  | unit

/-- returned values -/
inductive IRes where
  | bfs (r : BfsOut (List W))
  | path (r : PathRes)
  /-- `find_path_between`: outer `none` = assertion failure; start state decoded, edges -/
  | between (r : Option (Option (List Nat × List Nat)))
  | beam (r : Option BeamRes)
  /-- `apply_path`: the decoded state; `none`: a generator index out of range (the code asserts) -/
  | applied (s : Option (List Nat))
  | walks (r : List (List W × Nat))
  /-- an argument of the wrong kind (a `TypeError` in Python) -/
  | bad

abbrev IOp := Op SDef IArg IRes
abbrev IObj := Obj SDef EncP HashFn IRes
abbrev ISession := Session SDef EncP HashFn IRes
abbrev IView := OutView SDef EncP HashFn IRes

/-- the options `_precompute_bfs` passes for a cache key -/
def ballCfgOfKey (key : BallKey) : BfsCfg (List W) :=
  { maxStore := some 0, maxExplore := key.1, maxDiameter := key.2, returnHashes := true }

/-- `bfs(max_diameter=D, return_all_hashes=True)` -/
def ballCfg (D : Nat) : BfsCfg (List W) := { returnHashes := true, maxDiameter := D }

/-- `graph.bfs(**opts)` -/
def runBfs (i : IImm) : IArg → IRes
  | .bfs cfg none => .bfs (bfs (graphOf i) cfg [centralOf i])
  | .bfs cfg (some starts) => .bfs (bfs (graphOf i) cfg (starts.map (encOf i)))
  | _ => .bad

/-- the `layers_hashes` a path query works with -/
def ballHashes (i : IImm) (D : Option Nat) (held : IRes) : Option (List (List Int)) :=
  match D, held with
  | some D, _ => some (bfs (graphOf i) (ballCfg D) [centralOf i]).hashes
  | none, .bfs r => some r.hashes
  | none, _ => none

/-- `path[::-1]` of a found path -/
def reversed : PathRes → PathRes
  | .found p => .found p.reverse
  | r => r

/-- the path queries with a ball, run on the object `i` with the inverted copy `gi` it found -/
def runPathQuery (i gi : IImm) (q : IArg) (held : IRes) : IRes :=
  match q with
  | .pathTo x D =>
    match ballHashes i D held with
    | some H => .path (findPathTo (graphOf i) (graphOf gi) H (encOf i x))
    | none => .bad
  | .pathFrom x D =>
    match ballHashes i D held with
    | some H => .path (findPathFrom (graphOf i) (graphOf gi) (permInvMap i.defn.perms) H (encOf i x))
    | none => .bad
  | .mitmTo x D =>
    match ballHashes i D held with
    | some H => .path (mitmFindPathTo (graphOf i) (graphOf gi) H (encOf i x))
    | none => .bad
  | .mitmFrom x D =>
    match ballHashes i D held with
    | some H => .path (mitmFindPathFrom (graphOf i) (graphOf gi) (permInvMap i.defn.perms) H (encOf i x))
    | none => .bad
  | .between S T M =>
    .between ((findPathBetween (graphOf i) (graphOf gi) (S.map (encOf i)) (T.map (encOf i)) M).map
      (Option.map fun r => (decOf i r.start, r.edges)))
  | _ => .bad

def pathQueryDepth : IArg → Nat
  | .pathTo _ _ | .pathFrom _ _ => 1
  | .mitmTo _ _ | .mitmFrom _ _ | .between _ _ _ => 2
  | _ => 0

def beamDepth : IArg → Nat
  | .beamSimple _ _ => 1
  | _ => 0

/-- `graph.beam_search(**args)` -/
def runBeam (i : IImm) (chain : List IImm) : IArg → IRes
  | .beamSimple start cfg =>
    match chain with
    | gi :: _ =>
      .beam (beamSimple (graphOf i) (graphOf gi) (permInvMap i.defn.perms) (centralOf i) (encOf i start) cfg)
    | [] => .bad
  | .beamAdvanced start dest cfg => .beam (beamAdvanced (graphOf i) (encOf i start) (encOf i dest) cfg)
  | _ => .bad

/-- `graph.random_walks(**args)` with the recorded draws -/
def runWalks (i : IImm) (args draws : IArg) : IRes :=
  match args, draws with
  | .walksClassic width length start, .draws d => .walks (walksClassic (graphOf i) width length (encOf i start) d)
  | .walksBfs width length start, .draws d => .walks (walksBfs (graphOf i) width length (encOf i start) d)
  | .walksNbt width length hd start, .draws d => .walks (walksNbt (graphOf i) width length hd (encOf i start) d)
  | _, _ => .bad

/-- `graph.apply_path(s, p)` (asserts `0 <= gen_id < n_generators`) -/
def runApplyPath (i : IImm) : IArg → IRes
  | .applyPath s p =>
    if p.all (fun k => decide (k < (graphOf i).nGens)) then
      .applied (some (decOf i (applyPath (graphOf i).act (encOf i s) p)))
    else .applied none
  | _ => .bad

/-- `MeetInTheMiddle.find_path_from(graph, start, ball)` inside `find_path` -/
def runPathFrom (i : IImm) (chain : List IImm) (start : IArg) (ball : IRes) : IRes :=
  match start, ball, chain with
  | .state s, .bfs r, gi :: _ =>
    .path (mitmFindPathFrom (graphOf i) (graphOf gi) (permInvMap i.defn.perms) r.hashes (encOf i s))
  | _, _, _ => .bad

/-- `MeetInTheMiddle.find_path_to(graph_inv, start, ball)[::-1]` inside `find_path`; `j` is the inverted copy, the head
of the chain is ITS inverted copy -/
def runRevPathTo (j : IImm) (chain : List IImm) (start : IArg) (ball : IRes) : IRes :=
  match start, ball, chain with
  | .state s, .bfs r, gjj :: _ => .path (reversed (mitmFindPathTo (graphOf j) (graphOf gjj) r.hashes (encOf j s)))
  | _, _, _ => .bad

/-- **the instantiated semantics**; `db` is the `batch_size` default of the constructor (what copies get) -/
def instC (db : Nat) : Compute SDef EncP HashFn IArg IRes :=
  { invert := SDef.inverted
    invClosed := fun d => d.ic
    hasModel := fun _ => false
    defaultBatch := db
    bfs := runBfs
    ballOpts := fun key => .bfs (ballCfgOfKey key) none
    pathFrom := runPathFrom
    revPathTo := runRevPathTo
    mitmDepth := fun _ _ _ => 2
    pathQuery := fun i chain q held =>
      match chain with
      | gi :: _ => runPathQuery i gi q held
      | [] => .bad
    pathQueryDepth := fun _ q _ => pathQueryDepth q
    beam := runBeam
    beamDepth := fun _ a => beamDepth a
    modelBeamArgs := fun a _ => a
    walks := runWalks
    exportGraph := fun i a => runApplyPath i a }

/-! ### the operations, by name -/

def opBfs (k : ObjId) (cfg : BfsCfg (List W)) (starts : Option (List (List Nat))) : IOp := .bfs k (.bfs cfg starts)
def opFindPathTo (k : ObjId) (q : List Nat) (D : Nat) : IOp := .pathQuery k (.pathTo q (some D)) .bad
def opFindPathFrom (k : ObjId) (q : List Nat) (D : Nat) : IOp := .pathQuery k (.pathFrom q (some D)) .bad
def opMitmTo (k : ObjId) (q : List Nat) (D : Nat) : IOp := .pathQuery k (.mitmTo q (some D)) .bad
def opMitmFrom (k : ObjId) (q : List Nat) (D : Nat) : IOp := .pathQuery k (.mitmFrom q (some D)) .bad
/-- `find_path_to(q, ball)` with a result the caller holds -/
def opFindPathToHeld (k : ObjId) (q : List Nat) (ball : IRes) : IOp := .pathQuery k (.pathTo q none) ball
def opMitmToHeld (k : ObjId) (q : List Nat) (ball : IRes) : IOp := .pathQuery k (.mitmTo q none) ball
def opBetween (k : ObjId) (S T : List (List Nat)) (M : Nat) : IOp := .pathQuery k (.between S T M) .bad
def opFindPath (k : ObjId) (q : List Nat) (limits : Limits) : IOp := .findPath k (.state q) limits
def opBeamSimple (k : ObjId) (start : List Nat) (cfg : SimpleCfg (List W)) : IOp := .beam k (.beamSimple start cfg)
def opBeamAdvanced (k : ObjId) (start dest : List Nat) (cfg : AdvCfg (List W)) : IOp :=
  .beam k (.beamAdvanced start dest cfg)
def opApplyPath (k : ObjId) (s : List Nat) (p : List Nat) : IOp := .exportGraph k (.applyPath s p)
/-- `graph.with_inverted_generators`: returns the (cached) inverted copy -/
def opSwitchToInverted (k : ObjId) : IOp := .takeInverted k
/-- `graph.modified_copy(new_def)` -/
def opModifiedCopy (k : ObjId) (d : SDef) : IOp := .modifiedCopy k d

/-! ### what is observed -/

/-- everything later operations on object `k` see of its definition: generators, central state, flag, width, state
length, hash function, batch size -/
def fingerprint (s : ISession) (k : ObjId) : Option IImm := (s.objs[k]?).map Obj.imm

/-- the path in an answer -/
def pathOf : IView → Option PathRes
  | .value (.path r) => some r
  | _ => none

/-- immutable part of the inverted copy of an object with immutable part `i`: generators inverted, encoder and hasher
shared, batch size the constructor default `db` -/
def invOf (db : Nat) (i : IImm) : IImm := ⟨i.defn.inverted, i.enc, i.hasher, db⟩

/-- the ball `find_path` works with on an object with immutable part `i` (copies have batch size `db`) -/
def sessFindBall (db : Nat) (i : IImm) (lim : Limits) : List (List Int) :=
  if i.defn.ic then
    (precomputeBfs (graphOf i) (centralOf i) lim.maxLayerSizeToExplore lim.maxDiameter).hashes
  else
    (precomputeBfs (graphOf (invOf db i)) (centralOf i) lim.maxLayerSizeToExplore lim.maxDiameter).hashes

end Cv.SessionInst
