/-
  Model of `cayleypy/algo/bfs_algo.py : BfsAlgorithm.bfs` (every option), generic over the state type.
  Core Lean only.  The loop `for i in range(1, max_diameter + 1)` is a structural recursion on the
  number of remaining iterations; the three `break`s are the three early returns, in the code's order.
-/
import CvModel.Spec
import CvModel.Tensor
namespace Cv

variable {α : Type}

/-- What the algorithms see of a `CayleyGraph`: generators acting on (encoded) states and the hasher. -/
structure Graph (α : Type) where
  nGens : Nat
  act : Nat → α → α
  hash : α → Int
  /-- `definition.generators_inverse_closed` -/
  invClosed : Bool
  /-- `graph.batch_size` -/
  batchSize : Nat

def Graph.nb (g : Graph α) (x : α) : List α := nbOf g.nGens g.act x

/-- `CayleyGraph.get_neighbors`: generator-major, `neighbors[i*m + r] = act i states[r]`. -/
def Graph.neighbors (g : Graph α) (xs : List α) : List α :=
  (List.range g.nGens).flatMap fun i => xs.map (g.act i)

def Graph.unique (g : Graph α) (xs : List α) : List α := uniqueStates g.hash xs

structure BfsCfg (α : Type) where
  /-- `max_layer_size_to_store` (`None` is `none`) -/
  maxStore : Option Nat := some 1000
  maxExplore : Nat := 10^12
  maxDiameter : Nat := 1000000
  returnEdges : Bool := false
  returnHashes : Bool := false
  disableBatching : Bool := false
  /-- `stop_condition(layer2, layer2_hashes)`; `none` when no callback was given.  The layer index is
  passed as well so that counting callbacks can be expressed as pure functions. -/
  stop : Option (Nat → List α → Bool) := none

/-- `max_layer_size_to_store or 10**15` -/
def BfsCfg.storeLimit (c : BfsCfg α) : Nat :=
  match c.maxStore with
  | none => 10^15
  | some 0 => 10^15
  | some k => k

structure BfsLoop (α : Type) where
  layer1 : List α
  layer1H : List Int
  seen : List (List Int)
  sizes : List Nat
  layers : List (Nat × List α)
  allH : List (List Int)
  eStarts : List (List Int)
  eEnds : List (List Int)
  cb : List Nat
  completed : Bool

/-- `_remove_seen_states` for one hash: `true` = not seen before -/
def notSeen (seen : List (List Int)) (h : Int) : Bool := seen.all fun s => !isinSorted s h

/-- the batched expansion branch (bfs_algo.py:95-110) -/
def expandBatched (g : Graph α) (seen : List (List Int)) (layer1 : List α) (layer1H : List Int) :
    List α × List Int :=
  let numBatches := ceilDiv layer1H.length g.batchSize
  let acc := (tensorSplit numBatches layer1).foldl
    (fun (acc : List (List α) × List (List Int)) batch =>
      let u := g.unique (g.neighbors batch)
      let keep := u.filter fun x =>
        notSeen seen (g.hash x) && acc.2.all fun ob => !isinSorted ob (g.hash x)
      (acc.1 ++ [keep], acc.2 ++ [keep.map g.hash]))
    ([], [])
  (acc.1.flatten, sortInts acc.2.flatten)

/-- the plain expansion branch (bfs_algo.py:111-120) without edge recording -/
def expandPlain (g : Graph α) (seen : List (List Int)) (layer1 : List α) : List α × List Int :=
  let u := g.unique (g.neighbors layer1)
  let l2 := u.filter fun x => notSeen seen (g.hash x)
  (l2, l2.map g.hash)

def repeatList (l : List Int) : Nat → List Int
  | 0 => []
  | k+1 => l ++ repeatList l k

/-- `seen_states_hashes[-2:]` -/
def lastTwo (l : List (List Int)) : List (List Int) := l.drop (l.length - 2)

/-- iterations `i, i+1, …` while fuel lasts (`fuel = max_diameter + 1 - i`) -/
def bfsLoop (g : Graph α) (c : BfsCfg α) : Nat → Nat → BfsLoop α → BfsLoop α
  | 0, _, s => s
  | fuel+1, i, s =>
    let doBatching := !c.returnEdges && !c.disableBatching
    let batched := doBatching && decide (s.layer1.length > g.batchSize)
    let (layer2, layer2H) :=
      if batched then expandBatched g s.seen s.layer1 s.layer1H else expandPlain g s.seen s.layer1
    let s :=
      if !batched && c.returnEdges then
        { s with eStarts := s.eStarts ++ [repeatList s.layer1H g.nGens],
                 eEnds := s.eEnds ++ [(g.neighbors s.layer1).map g.hash] }
      else s
    let s := if c.returnHashes then { s with allH := s.allH ++ [s.layer1H] } else s
    if layer2.length == 0 then { s with completed := true }
    else
      let s := { s with sizes := s.sizes ++ [layer2.length] }
      let s := if layer2.length ≤ c.storeLimit then { s with layers := s.layers ++ [(i, layer2)] } else s
      let seen := s.seen ++ [layer2H]
      let seen := if g.invClosed then lastTwo seen else seen
      let s := { s with layer1 := layer2, layer1H := layer2H, seen := seen }
      if layer2.length ≥ c.maxExplore then s
      else
        match c.stop with
        | none => bfsLoop g c fuel (i+1) s
        | some f =>
          let s := { s with cb := s.cb ++ [i] }
          if f i layer2 then s else bfsLoop g c fuel (i+1) s

structure BfsOut (α : Type) where
  layerSizes : List Nat
  /-- stored layers: (layer index, rows) -/
  layers : List (Nat × List α)
  completed : Bool
  /-- `layers_hashes` -/
  hashes : List (List Int)
  /-- `edges_list_hashes` rows (start hash, end hash), `none` unless requested -/
  edges : Option (List (Int × Int))
  /-- layer indices on which `stop_condition` was invoked, in order -/
  cbTrace : List Nat

/-- `BfsAlgorithm.bfs(graph, start_states = starts, …)`; `starts` already encoded. -/
def bfs (g : Graph α) (c : BfsCfg α) (starts : List α) : BfsOut α :=
  let layer1 := g.unique starts
  let layer1H := layer1.map g.hash
  let s0 : BfsLoop α :=
    { layer1 := layer1, layer1H := layer1H, seen := [layer1H], sizes := [layer1.length],
      layers := [(0, layer1)], allH := [], eStarts := [], eEnds := [], cb := [], completed := false }
  let s := bfsLoop g c c.maxDiameter 1 s0
  let allH := if c.returnHashes && !s.completed then s.allH ++ [s.layer1H] else s.allH
  let edges : Option (List (Int × Int)) :=
    if c.returnEdges then
      let (es, ee) :=
        if !s.completed then
          match s.eStarts.getLast?, s.eEnds.getLast? with
          | some v1, some v2 => (s.eStarts ++ [v2], s.eEnds ++ [v1])
          | _, _ => (s.eStarts, s.eEnds)   -- the code raises IndexError here (max_diameter = 0)
        else (s.eStarts, s.eEnds)
      some (es.flatten.zip ee.flatten)
    else none
  let last := s.sizes.length - 1
  let layers :=
    if s.completed && !(s.layers.any fun p => p.1 == last) then s.layers ++ [(last, s.layer1)]
    else s.layers
  { layerSizes := s.sizes, layers := layers, completed := s.completed, hashes := allH,
    edges := edges, cbTrace := s.cb }

def BfsOut.diameter (r : BfsOut α) : Nat := r.layerSizes.length - 1
def BfsOut.numVertices (r : BfsOut α) : Nat := r.layerSizes.sum

end Cv
