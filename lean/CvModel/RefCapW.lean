/-
  The capped reference BFS with an additional WORK budget: a step is not started when the number of neighbour
  computations it needs (`|current layer| * deg`) exceeds `work`.  Same steps as `refLoop` / `refLoopCap`.
  Core Lean only.
-/
import CvModel.RefCap
namespace Cv

def refLoopCapW (nb : Nat → List Nat) (deg cap work : Nat) :
    Nat → Nat → List Nat → List Nat → List (List Nat) × RefStop
  | 0, _, _, cur => ([cur], .depth)
  | fuel+1, total, seen, cur =>
    if cur.length * deg > work then ([cur], .capped)
    else
      let nxt := refStep nb seen cur
      if nxt.isEmpty then ([cur], .exhausted)
      else if total + nxt.length > cap then ([cur], .capped)
      else
        let r := refLoopCapW nb deg cap work fuel (total + nxt.length)
          (List.merge seen nxt (fun a b => decide (a ≤ b))) nxt
        (cur :: r.1, r.2)

def refLayersCapW (nb : Nat → List Nat) (S : List Nat) (maxDepth deg cap work : Nat) : List (List Nat) × RefStop :=
  let l0 := sortDedup S
  refLoopCapW nb deg cap work maxDepth l0.length l0 l0

end Cv
