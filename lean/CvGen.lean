import CvGen.HashIR
import CvGen.Consts
