/-
  Runs the functions that `harness/extract/pylean.py` translated from the Python source
  (`CvGen/PyDispatch.lean`, regenerated on every run) on protocol lines:
      <fn> ; <ints> | <ints> | …        (one list of ints per parameter)
  Usage: `lake build CvGen.PyDispatch && lake env lean --run PyRun.lean < requests`.
  Kept apart from `cvdriver` so that a source change the translator cannot follow concerns C15 / C20 only.
-/
import CvGen.PyDispatch

def parseInts (s : String) : List Int := (s.splitOn " ").filterMap fun t => t.toInt?

partial def loop (h : IO.FS.Stream) (out : IO.FS.Stream) : IO Unit := do
  let line ← h.getLine
  if line.isEmpty then return ()
  let l := line.trimAscii.toString
  let ans := match l.splitOn ";" with
    | [fn] => Cv.PyGen.dispatch fn.trimAscii.toString []
    | [fn, args] =>
      let a := args.trimAscii.toString
      Cv.PyGen.dispatch fn.trimAscii.toString ((a.splitOn "|").map parseInts)
    | _ => "ERR parse"
  out.putStrLn ans
  loop h out

def main : IO Unit := do loop (← IO.getStdin) (← IO.getStdout)
