"""C19 — the Hamming predictor counts mismatches and scoring is batch-independent."""

import json
import os
import sys

sys.path.insert(0, os.path.join(os.path.dirname(__file__), ".."))

import numpy as np  # noqa: E402
import torch  # noqa: E402

from cv import algos, graphs  # noqa: E402
from cv.core import VERIF, Check  # noqa: E402
from cayleypy import Predictor  # noqa: E402

THEOREMS = [
    "Cv.hamming_spec",
    "Cv.hamming_self",
    "Cv.hamming_zero_iff",
    "Cv.hamming_le",
    "Cv.predictBatched_eq",
    "Cv.predictBatched_eq_of_append",
]


def run_case(ck: Check, case: dict):
    gd = graphs.GDef.from_json(case["gd"])
    rows, batch = case["rows"], case["batch"]
    size = len(gd.central)
    try:
        g = gd.graph(batch_size=batch, random_seed=1)
    except (AssertionError, ValueError) as ex:
        ck.count("skipped:constructor " + type(ex).__name__)
        return
    ck.case(["hamming", gd.key(), rows, batch], True, sample={"kind": gd.kind, "shape": [gd.n, getattr(gd, "m", None)], "rows": len(rows), "batch": batch})
    ck.count("kind:" + gd.kind)
    ck.count("batches:" + ("1" if batch >= len(rows) else "many"))
    t = torch.tensor(rows, dtype=torch.int64)
    if gd.kind == "mat":
        t = g.decode_states(t)  # (k, n, m) as the beam search passes them
    want = [sum(1 for a, b in zip(r, gd.central) if a != b) for r in rows]
    t_before = t.clone()
    for kind in ("hamming", "zero", "hamming"):  # scored repeatedly on the SAME tensor: the caller's states must not change
        st, out = algos.call(lambda: Predictor(g, kind)(t))
        if st == "ok" and not torch.equal(t, t_before):
            ck.violation(f"C19/{kind}/input-mutated", f"{kind} predictor modified the states tensor supplied by the caller", {"case": case, "predictor": kind})
            return
        rep = {"case": case, "predictor": kind}
        if st != "ok":
            ck.violation(f"C19/{kind}/error/{gd.kind}", f"{kind} predictor raised: {out}", rep)
            return
        got = [float(v) for v in np.asarray(out).reshape(-1).tolist()]
        exp = want if kind == "hamming" else [0] * len(rows)
        if len(got) != len(rows) or any(a != b for a, b in zip(got, exp)):
            ck.violation(f"C19/{kind}/wrong-values/{gd.kind}", f"{kind} predictor does not return the number of mismatching positions / zero, in order", dict(rep, expected=exp, observed=got))
            return
    # a result the caller still holds must not change when the same Predictor scores something else
    ph = Predictor(g, "hamming")
    st, first = algos.call(lambda: ph(t))
    if st == "ok":
        held = [float(v) for v in np.asarray(first).reshape(-1).tolist()]
        algos.call(lambda: ph(torch.flip(t, dims=[0])))
        algos.call(lambda: ph(t[: max(1, len(rows) // 2)]))
        now = [float(v) for v in np.asarray(first).reshape(-1).tolist()]
        if now != held or held != [float(w) for w in want]:
            ck.violation("C19/hamming/result-overwritten", "scores returned earlier changed after the same Predictor scored another set of states", {"case": case, "returned": held, "now": now, "expected": want})
            return
    # one caller-owned Predictor object through a history of uses (scoring, beam searches in both modes, towards
    # the central state or another destination): afterwards it must still score against the central state
    if case.get("history"):
        p = Predictor(g, "hamming")

        def walk(k, salt):
            st = tuple(gd.central)
            for j in range(k):
                st = gd.act((salt + j) % len(gd.gens), st)
            return st

        for op in case["history"]:
            kw = {"beam_width": 3, "max_steps": 3, "predictor": p}
            if op == "score":
                p(t)
            elif op == "simple":
                algos.call(g.beam_search, start_state=list(walk(2, 0)), beam_mode="simple", **kw)
            elif op == "advanced":
                algos.call(g.beam_search, start_state=list(walk(2, 1)), beam_mode="advanced", **kw)
            elif op == "advanced-dest":
                algos.call(g.beam_search, start_state=list(walk(3, 0)), destination_state=list(walk(1, 1)), beam_mode="advanced", **kw)
            ck.count("history:" + op)
        st, out = algos.call(lambda: p(t))
        got = [float(v) for v in np.asarray(out).reshape(-1).tolist()] if st == "ok" else out
        if st != "ok" or got != [float(w) for w in want]:
            ck.violation("C19/hamming/after-history", "a Predictor object no longer returns the distance to the central state after it was used in searches", {"case": case, "expected": want, "observed": got})
            return
    # batch independence of an arbitrary row-wise predictor
    f = lambda x: (x.reshape(x.shape[0], -1) * torch.arange(1, size + 1)).sum(dim=1) % 1000  # noqa: E731
    one = Predictor(gd.graph(batch_size=10**9, random_seed=1), f)(t).tolist()
    many = Predictor(g, f)(t).tolist()
    if one != many:
        ck.violation("C19/batch-dependence", "scores depend on the batch size used to split the work", {"case": case, "unsplit": one, "split": many})
        return
    drv = ck.driver()
    for r, w in list(zip(rows, want))[:4]:
        m = drv.ask(f"hamming ; {' '.join(map(str, gd.central))} ; {' '.join(map(str, r))}")
        if int(m) != w:
            ck.correspondence_break("hamming (model) differs from the mismatch count", {"central": gd.central, "row": r, "model": m})
    ts = drv.ask(f"tsplit {max(1, -(-len(rows) // max(batch, 1)))} ; {' '.join(map(str, range(len(rows))))}")
    flat = [int(x) for part in ts.split("|") for x in part.split()]
    if flat != list(range(len(rows))):
        ck.correspondence_break("tensorSplit (model) does not concatenate back to the input", {"rows": len(rows), "batch": batch})


def gen_case(ck):
    rng = ck.rng
    gd = graphs.gen_def(rng, mat_share=0.4)
    size = len(gd.central)
    k = rng.randint(1, 12)
    hi = (max(gd.central) + 1) if gd.kind == "perm" else (gd.modulo or 5)
    rows = [list(gd.central), [(c + 1) % max(hi, 2) for c in gd.central]]
    rows += [[rng.randrange(max(hi, 2)) for _ in range(size)] for _ in range(k)]
    rng.shuffle(rows)
    hist = [rng.choice(["score", "simple", "advanced", "advanced-dest"]) for _ in range(rng.randint(1, 3))] if rng.random() < 0.35 else None
    return {"gd": gd.to_json(), "rows": rows, "batch": rng.choice([1, 2, 3, len(rows) - 1 or 1, len(rows), len(rows) + 2]), "history": hist}


def huge_batch(ck):
    from cayleypy import CayleyGraph, PermutationGroups

    n, rows = 32, 1_200_000 + ck.rng.randint(0, 9999)
    g = CayleyGraph(PermutationGroups.lrx(n), random_seed=1)
    gen = np.random.default_rng(ck.seed)
    central = np.arange(n, dtype=np.int64)
    arr = np.tile(central, (rows, 1))
    k = gen.integers(0, 4, size=rows)            # number of changed positions per row (0..3)
    for j in range(3):
        pos = gen.integers(0, n, size=rows)
        sel = k > j
        arr[sel, pos[sel]] = (arr[sel, pos[sel]] + 1 + j) % n
    want = (arr != central[None, :]).sum(axis=1)
    t = torch.from_numpy(arr)
    st, out = algos.call(lambda: Predictor(g, "hamming")(t))
    ck.case(["hamming-huge", n, rows], True)
    ck.count("huge-batch")
    case = {"huge_batch": {"n": n, "rows": rows, "numpy_seed": ck.seed}}
    if st != "ok":
        ck.violation("C19/hamming/error/huge", f"hamming predictor raised on a batch of {rows} rows: {out}", {"case": case})
        return
    got = np.asarray(out).reshape(-1)
    if len(got) != rows or not np.array_equal(got.astype(np.int64), want.astype(np.int64)):
        bad = int(np.argmax(got.astype(np.int64) != want.astype(np.int64))) if len(got) == rows else -1
        ck.violation("C19/hamming/wrong-values/huge", f"hamming predictor is wrong on a batch of {rows} rows of {n} entries (first wrong row {bad})", {"case": case, "first_wrong_row": bad, "expected": int(want[bad]) if bad >= 0 else None, "observed": float(got[bad]) if bad >= 0 else None})


def main():
    ck = Check("C19")
    if ck.replay:
        body = json.load(open(os.path.join(VERIF, ck.replay) if not os.path.isabs(ck.replay) else ck.replay))
        if "huge_batch" in body["case"]:
            ck.guard(huge_batch, ck)
        else:
            ck.guard(run_case, ck, body["case"])
        ck.finish(rule="replay of one recorded case")
    ck.lean_obligations("CvProps.C19", THEOREMS)
    for case in json.load(open(os.path.join(VERIF, "harness", "corpus", "C19.json"))):
        ck.guard(run_case, ck, case)
        ck.count("corpus")
    for _ in range(250 if not ck.thorough else 6000):
        if ck.enough():
            break
        ck.guard(run_case, ck, gen_case(ck))
    # one very large batch per run (more than 2^24 state entries in ONE predictor batch: 32-point states, 1.2 M rows, default
    # graph batch size), judged vectorised by the mismatch count; every row must be scored, in order
    if not ck.enough():
        ck.guard(huge_batch, ck)
    ck.finish(rule="generated permutation and matrix graphs (any state shape) x batches containing the central state, an all-different state and random states x batch sizes 1..len+2; x (for a third of the cases) a history of 1-3 earlier uses of the same Predictor object in scoring / simple / advanced beam searches incl. a non-central destination; judged by the mismatch count computed in plain Python")


if __name__ == "__main__":
    from cv.core import run_main

    run_main(main)
