"""C18 — a saved BFS result loads back equal and stays usable for path queries."""

import json
import os
import shutil
import sys
import tempfile
from dataclasses import replace

sys.path.insert(0, os.path.join(os.path.dirname(__file__), ".."))

import h5py  # noqa: E402
import numpy as np  # noqa: E402
import torch  # noqa: E402

from cv import algos, graphs  # noqa: E402
from cv.core import VERIF, Check  # noqa: E402
from cayleypy import BfsResult, CayleyGraph, CayleyGraphDef  # noqa: E402

THEOREMS = [
    "Cv.SaveLoad.exRes_wf",
    "Cv.SaveLoad.load_save",
    "Cv.SaveLoad.load_save_exact",
    "Cv.SaveLoad.beq_iff",
    "Cv.SaveLoad.beq_refl",
    "Cv.SaveLoad.beq_symm",
    "Cv.SaveLoad.beq_load_save",
    "Cv.SaveLoad.loaded_answers",
    "Cv.C18e.bfs_result_shape",
    "Cv.C18e.saved_wf",
    "Cv.C18e.saved_load_save",
    "Cv.C18e.saved_beq_iff",
    "Cv.C18e.saved_beq_load_save",
    "Cv.C18e.loaded_findPathTo_spec",
    "Cv.C18e.loaded_findPathFrom_spec",
]
NAMES = ["a", "b'", "L", "R", "x y", "π", "Ω-1", 'q"uote', "日本", "g,1", "0", "", "__", "layer__3"]


def fields(r):
    return {
        "completed": bool(r.bfs_completed),
        "sizes": [int(x) for x in r.layer_sizes],
        "layers": {int(k): np.asarray(v).tolist() for k, v in r.layers.items()},
        "hashes": [np.asarray(h).tolist() for h in r.layers_hashes],
        "edges": None if r.edges_list_hashes is None else np.asarray(r.edges_list_hashes).tolist(),
        "gens": [list(map(int, g)) for g in r.graph.generators_permutations],
        "names": list(r.graph.generator_names),
        "central": [int(x) for x in r.graph.central_state],
        "name": r.graph.name,
    }


def mutants(r):
    """Results that differ from r in exactly one field."""
    out = []
    out.append(("completed", replace(r, bfs_completed=not r.bfs_completed)))
    out.append(("layer_sizes", replace(r, layer_sizes=list(r.layer_sizes[:-1]) + [r.layer_sizes[-1] + 1])))
    k = sorted(r.layers)[-1]
    L = r.layers[k].clone()
    L[0, 0] = L[0, 0] + 1
    out.append(("layer-content", replace(r, layers={**r.layers, k: L})))
    if len(r.layers) > 1:
        out.append(("layer-keys", replace(r, layers={q: v for q, v in r.layers.items() if q != k})))
    if r.layers_hashes:
        H = [h.clone() for h in r.layers_hashes]
        H[-1][0] = H[-1][0] + 1
        out.append(("hash-content", replace(r, layers_hashes=H)))
        out.append(("hash-count", replace(r, layers_hashes=list(r.layers_hashes[:-1]))))
    if r.edges_list_hashes is not None:
        E = r.edges_list_hashes.clone()
        E[0, 1] = E[0, 1] + 1
        out.append(("edge-content", replace(r, edges_list_hashes=E)))
        out.append(("edges-absent", replace(r, edges_list_hashes=None)))
    g = r.graph
    out.append(("graph-name", replace(r, graph=replace(g, name=g.name + "x"))))
    out.append(("generator-names", replace(r, graph=replace(g, generator_names=[g.generator_names[0] + "x"] + list(g.generator_names[1:])))))
    c2 = list(g.central_state)
    c2[0], c2[-1] = c2[-1], c2[0]
    if c2 != list(g.central_state):
        out.append(("central-state", replace(r, graph=replace(g, central_state=c2))))
    if len(g.generators_permutations) > 1 and g.generators_permutations[0] != g.generators_permutations[1]:
        gp = [list(x) for x in g.generators_permutations]
        gp[0], gp[1] = gp[1], gp[0]
        out.append(("generators", replace(r, graph=replace(g, generators_permutations=gp))))
    return out


def run_case(ck: Check, case: dict, tmp: str):
    gd = graphs.GDef.from_json(case["gd"])
    cfg, opts, names, gname, queries = case["cfg"], case["opts"], case["names"], case["name"], case["queries"]
    d = CayleyGraphDef.create(gd.gens, generator_names=names, central_state=gd.central, name=gname)
    g = CayleyGraph(d, **cfg)
    st, r = algos.call(g.bfs, **opts)
    if st != "ok":
        ck.count("skipped:bfs")
        return
    ck.case(["save", gd.key(), cfg, opts, names, gname], True, sample={"gd_tag": gd.tag, "cfg": cfg, "opts": opts, "names": names, "name": gname, "sizes": r.layer_sizes})
    ck.traces += 1
    ck.count("seed:" + str(cfg.get("random_seed")))
    ck.count("edges" if opts.get("return_all_edges") else "noedges")
    ck.count("hashes" if opts.get("return_all_hashes") else "nohashes")
    rep = {"case": case}
    path = os.path.join(tmp, "r.h5")
    try:
        r.save(path)
        r2 = BfsResult.load(path)
    except Exception as ex:  # pylint: disable=broad-except
        if any("\x00" in n for n in (names or []) + [gname]):
            ck.count("rejected:NUL in name (outside h5py's string domain)")
            return
        ck.violation("C18/save-load-error", f"save/load raised: {type(ex).__name__}: {ex}", rep)
        return
    f1, f2 = fields(r), fields(r2)
    diff = [k for k in f1 if f1[k] != f2[k]]
    if diff:
        ck.violation("C18/roundtrip/" + diff[0], f"loaded result differs from the saved one in {diff}", dict(rep, original={k: str(f1[k])[:200] for k in diff}, loaded={k: str(f2[k])[:200] for k in diff}))
        return
    try:
        eq = (r == r2) and (r2 == r)
    except Exception as ex:  # pylint: disable=broad-except
        ck.violation("C18/eq-error", f"comparing original and loaded result raised: {type(ex).__name__}: {ex}", rep)
        return
    if not eq:
        ck.violation("C18/eq-false", "loaded result does not compare equal to the original", rep)
        return
    # equality distinguishes results that differ in any field (both directions, original and loaded)
    for what, mu in mutants(r):
        ck.evaluations += 1
        ck.count("mutant:" + what)
        try:
            same = (r == mu) or (mu == r) or (r2 == mu) or (mu == r2)
        except Exception as ex:  # pylint: disable=broad-except
            ck.violation("C18/eq-error/" + what, f"== raised on results differing in {what}: {type(ex).__name__}: {ex}", dict(rep, field=what))
            return
        if same:
            ck.violation("C18/eq-blind/" + what, f"== does not distinguish results that differ in {what}", dict(rep, field=what))
            return
    # file layout against the model of save
    with h5py.File(path, "r") as f:
        layout = {}
        for k in f.keys():
            v = f[k]
            if v.shape == ():
                kind = "str" if v.dtype.kind in "OS" else ("empty" if v.dtype.kind == "f" else "flag")
                layout[k] = kind
            elif v.dtype.kind in "OS":
                layout[k] = f"strs[{v.shape[0]}]"
            else:
                layout[k] = "ints" + str(list(v.shape)).replace(" ", "").replace(",", ", ")
    n = len(gd.central)
    li = " ".join(str(k) for k in r.layers)
    hl = " ".join(str(len(h)) for h in r.layers_hashes)
    ed = "none" if r.edges_list_hashes is None else str(len(r.edges_list_hashes))
    m = ck.driver().ask(f"save.layout {1 if r.bfs_completed else 0} {n} ; {' '.join(map(str, r.layer_sizes))} ; {li} ; {hl} ; {ed} ; {len(gd.gens)}")
    mlay, _, rt = m.rpartition(";")
    import re

    mdict = dict(re.findall(r"(\S+?)=(flag|strs\[\d+\]|str|empty|ints\[[^\]]*\])", mlay))
    # the model prints shapes as Lean lists: ints[3, 2]
    if {k: v.replace(" ", "") for k, v in mdict.items()} != {k: v.replace(" ", "") for k, v in layout.items()}:
        ck.correspondence_break("save: key/shape layout of the file differs from the model", dict(rep, model=mdict, file=layout))
    if rt.strip() != "1":
        ck.correspondence_break("model: load (save r) is not r for this structure", dict(rep, model=rt))
    # a loaded result answers path queries on a freshly constructed graph (same definition, same seed)
    if opts.get("return_all_hashes") and cfg.get("random_seed") is not None:
        g2 = CayleyGraph(r2.graph, **cfg)
        for q in queries:
            st1, p1 = algos.call(g.find_path_to, q, r)
            st2, p2 = algos.call(g2.find_path_to, q, r2)
            ck.evaluations += 1
            ck.count("path-query-on-loaded")
            if st1 != st2 or p1 != p2:
                ck.violation("C18/loaded-path-query", f"path query on the loaded result with a fresh graph differs from the original: {str(p1)[:80]} vs {str(p2)[:80]}", dict(rep, query=q))
                return


def run_many_results(ck: Check, case: dict, tmp: str):
    """ONE graph object answers path queries for many loaded results in a row, each result dropped before the next is
    loaded (the way a script re-binds `r = BfsResult.load(p)`): every answer is judged by the true distances."""
    import gc

    gd = graphs.GDef.from_json(case["gd"])
    cfg = case["cfg"]
    layers = gd.brute_layers(cap=3000)
    dist = {tuple(s): i for i, l in enumerate(layers) for s in l}
    g = gd.graph(**cfg)
    paths = []
    for D in case["depths"]:
        r = g.bfs(max_diameter=D, return_all_hashes=True)
        f = os.path.join(tmp, f"ball{D}.h5")
        r.save(f)
        paths.append((f, len(r.layers_hashes) - 1))
    del r
    g2 = gd.graph(**cfg)
    rng = __import__("random").Random(case["seed"])
    for k in range(case["loads"]):
        f, depth = rng.choice(paths)
        r = BfsResult.load(f)  # re-binding drops the previous result
        for _ in range(2):
            q = list(rng.choice(layers[rng.randrange(len(layers))]))
            d = dist[tuple(q)]
            st, p = algos.call(g2.find_path_to, q, r)
            ck.evaluations += 1
            ok = st == "ok" and ((p is None) if d > depth else (p is not None and len(p) == d))
            if ok and p is not None:
                s_ = tuple(gd.central)
                for i in p:
                    s_ = gd.act(i, s_)
                ok = s_ == tuple(q)
            if not ok:
                ck.violation("C18/loaded-path-query/many-results", "a graph that has answered queries for other loaded results answers wrongly for this one", {"case": case, "load_index": k, "ball_depth": depth, "query": q, "true_distance": d, "observed": str(p)[:200]})
                return
        if k % 3 == 0:
            gc.collect()
    ck.case(["many-results", gd.key(), cfg, case["depths"], case["loads"], case["seed"]], True, sample={"op": "one graph, many loaded results", "loads": case["loads"], "depths": case["depths"]})
    ck.count("one graph answering for many loaded results")


def run_big_layer(ck: Check, case: dict, tmp: str):
    """A stored layer (and its hash layer) with more than 2^16 rows: 70 000+ distinct start states of a 20-point graph,
    one BFS step, saved and loaded; every field compared (vectorised), path queries on the loaded result."""
    rng = __import__("random").Random(case["seed"])
    n, k = 20, case["starts"]
    gens = [[(i + 1) % n for i in range(n)], [1, 0] + list(range(2, n))]
    codes = rng.sample(range(2**n), k)
    starts = [[(c >> i) & 1 for i in range(n)] for c in codes]
    g = CayleyGraph(CayleyGraphDef.create(gens, central_state=[0] * (n - 1) + [1]), bit_encoding_width=case["bit_encoding_width"], random_seed=case["random_seed"], device="cpu")
    r = g.bfs(start_states=starts, max_diameter=1, return_all_hashes=True, max_layer_size_to_store=None)
    f = os.path.join(tmp, "big.h5")
    r.save(f)
    r2 = BfsResult.load(f)
    ck.case(["big-layer", case], True, sample={"op": "stored layer with more than 2^16 rows", "rows": [len(v) for v in r.layers.values()]})
    ck.count("results with a stored layer above 2^16 rows")
    bad = None
    if list(r2.layer_sizes) != list(r.layer_sizes) or bool(r2.bfs_completed) != bool(r.bfs_completed):
        bad = "layer sizes / completion flag differ"
    elif sorted(r2.layers) != sorted(r.layers) or any(not np.array_equal(np.asarray(r2.layers[i]), np.asarray(r.layers[i])) for i in r.layers):
        i = next((i for i in sorted(r.layers) if i not in r2.layers or not np.array_equal(np.asarray(r2.layers[i]), np.asarray(r.layers[i]))), None)
        bad = f"stored layer {i} differs after the round trip"
    elif len(r2.layers_hashes) != len(r.layers_hashes) or any(not torch.equal(a, b) for a, b in zip(r2.layers_hashes, r.layers_hashes)):
        bad = "per-layer hashes differ after the round trip"
    elif not (r2 == r):
        bad = "loaded result is not equal to the original (BfsResult.__eq__)"
    if bad:
        ck.violation("C18/big-layer", "result with a stored layer of more than 2^16 rows: " + bad, {"case": case})
        return
    g2 = CayleyGraph(r2.graph, bit_encoding_width=case["bit_encoding_width"], random_seed=case["random_seed"], device="cpu")
    for q in [starts[0], starts[k // 2], starts[-1], starts[-2]]:
        st1, p1 = algos.call(g.find_path_to, q, r)
        st2, p2 = algos.call(g2.find_path_to, q, r2)
        ck.evaluations += 1
        if st1 != st2 or p1 != p2:
            ck.violation("C18/big-layer/path-query", f"path query on the loaded big result differs from the original: {str(p1)[:60]} vs {str(p2)[:60]}", {"case": case, "query": q})
            return


def gen_case(ck):
    rng = ck.rng
    for _ in range(300):
        gd = graphs.gen_perm_def(rng)
        if rng.random() < 0.07:
            # permutations of 257..520 points moving a few positions: stored layers hold labels >= 256 (>= one byte)
            n = rng.choice([257, 300, 300, 520])
            support = rng.sample(range(n), rng.randint(3, 5))
            gens = []
            for _ in range(rng.randint(2, 3)):
                img = list(support)
                rng.shuffle(img)
                p = list(range(n))
                for a_, b_ in zip(support, img):
                    p[a_] = b_
                gens.append(p)
            gd = graphs.GDef("perm", gens, list(range(n)), tag="wide-labels")
        layers = gd.brute_layers(cap=500)
        if layers is None or len(layers) < 2:
            continue
        orbit = [s for l in layers for s in l]
        ecc = len(layers) - 1
        cfg = graphs.gen_cfg(rng, gd)
        cfg["random_seed"] = rng.choice([0, 0, 1, 5, -3, 2**40])
        if gd.tag == "wide-labels":
            cfg["batch_size"], cfg["hash_chunk_size"] = max(cfg["batch_size"], 50), max(cfg["hash_chunk_size"], 100)
            if rng.random() < 0.8:
                cfg["bit_encoding_width"] = None  # the bit-by-bit encoder costs ~20 ms per call at this size
        opts = {
            "return_all_hashes": rng.random() < 0.7,
            "return_all_edges": rng.random() < 0.4,
            "max_layer_size_to_store": rng.choice([None, 1, 2, 1000]),
        }
        r = rng.random()
        if r < 0.3:
            opts["max_diameter"] = rng.randint(1, ecc + 1)
        elif r < 0.45:
            opts["max_layer_size_to_explore"] = rng.choice([1, 2, len(layers[1])])
        names = None if rng.random() < 0.3 else [rng.choice(NAMES) + (str(i) if rng.random() < 0.7 else "") for i in range(len(gd.gens))]
        return {"gd": gd.to_json(), "cfg": cfg, "opts": opts, "names": names, "name": rng.choice(["", "lrx-5", "my graph", "π/2", "a;b"]), "queries": [list(rng.choice(orbit)) for _ in range(3)]}
    raise RuntimeError("no case")


def main():
    ck = Check("C18")
    tmp = tempfile.mkdtemp(prefix="cv_c18_", dir=os.environ.get("TMPDIR", "/tmp"))
    try:
        if ck.replay:
            body = json.load(open(os.path.join(VERIF, ck.replay) if not os.path.isabs(ck.replay) else ck.replay))
            ck.guard(run_many_results if "loads" in body["case"] else run_big_layer if "starts" in body["case"] and isinstance(body["case"]["starts"], int) else run_case, ck, body["case"], tmp)
            ck.finish(rule="replay of one recorded case")
        ck.lean_obligations(["CvProps.C18", "CvProps.C18e"], THEOREMS)
        for case in json.load(open(os.path.join(VERIF, "harness", "corpus", "C18.json"))):
            ck.guard(run_case, ck, case, tmp)
            ck.count("corpus")
        for _ in range(120 if not ck.thorough else 2500):
            if ck.enough():
                break
            ck.guard(run_case, ck, gen_case(ck), tmp)
        for _ in range(1 if not ck.thorough else 4):
            if ck.enough():
                break
            ck.guard(run_big_layer, ck, {"starts": ck.rng.choice([70000, 65537, 131073 if ck.thorough else 66000]), "seed": ck.rng.randrange(10**6), "bit_encoding_width": ck.rng.choice([None, "auto"]), "random_seed": ck.rng.choice([0, 3])}, tmp)
        for _ in range(3 if not ck.thorough else 40):
            if ck.enough():
                break
            for _try in range(50):
                gd = graphs.gen_perm_def(ck.rng)
                layers = gd.brute_layers(cap=1500)
                if layers is not None and len(layers) >= 5:
                    break
            else:
                continue
            cfg = graphs.gen_cfg(ck.rng, gd)
            cfg["random_seed"] = ck.rng.choice([0, 1, 5])
            ecc = len(layers) - 1
            ck.guard(run_many_results, ck, {"gd": gd.to_json(), "cfg": cfg, "depths": sorted({1, 2, ecc // 2, ecc - 1, ecc}), "loads": 60, "seed": ck.rng.randrange(10**6)}, tmp)
    finally:
        shutil.rmtree(tmp, ignore_errors=True)
    ck.assumptions = ["HDF5 / h5py are modelled by a key-value store, not verified; names with embedded NUL are outside h5py's string domain"]
    ck.finish(rule="generated permutation definitions with arbitrary (Unicode, quoted, spaced) generator names and graph names x BFS option combinations and stopping limits x seeds incl. 0; round trip compared field by field and by ==; == must reject every single-field mutant; file layout compared with the model of save; path queries on the loaded result with a fresh graph")


if __name__ == "__main__":
    from cv.core import run_main

    run_main(main)
