"""C13 — results do not depend on the container or dtype in which states are supplied."""

import json
import os
import sys

sys.path.insert(0, os.path.join(os.path.dirname(__file__), ".."))

import numpy as np  # noqa: E402
import torch  # noqa: E402

from cv import algos, graphs  # noqa: E402
from cv.core import VERIF, Check  # noqa: E402
from cayleypy import CayleyGraph, CayleyGraphDef, create_graph, find_path  # noqa: E402
from cayleypy.algo import MeetInTheMiddle  # noqa: E402

THEOREMS = [
    "Cv.Normalize.normalize_congr",
    "Cv.Normalize.asInt64_id",
    "Cv.Normalize.normalizeStates_sound",
    "Cv.Normalize.normalizeCentral_congr",
    "Cv.Normalize.normalizeGens_congr",
    "Cv.Normalize.encode_widen",
    "Cv.Normalize.encodeNarrow_small",
]

NP = {"np.int8": np.int8, "np.int16": np.int16, "np.int32": np.int32, "np.int64": np.int64, "np.uint8": np.uint8}
TO = {"torch.uint8": torch.uint8, "torch.int16": torch.int16, "torch.int32": torch.int32, "torch.int64": torch.int64}
# memory layouts of array containers (same logical content): Fortran order, transposed view, strided slice
LAYOUTS = ["np.int64:F", "np.int32:T", "np.int64:strided", "torch.int64:T", "torch.int16:T", "torch.int64:strided"]
CONTAINERS = ["list"] + list(NP) + list(TO) + LAYOUTS


def _wrap(data, container):
    """nested list -> array / tensor of the container's dtype in the container's memory layout"""
    base, _, layout = container.partition(":")
    if base in NP:
        a = np.array(data, dtype=NP[base])
        if layout == "F":
            a = np.asfortranarray(a)
        elif layout == "T" and a.ndim >= 2:
            a = np.ascontiguousarray(np.swapaxes(a, -1, -2)).swapaxes(-1, -2)
        elif layout == "strided":
            big = np.repeat(a, 2, axis=-1)
            big[..., 1::2] = 7
            a = big[..., ::2]
        return a
    t = torch.tensor(data, dtype=TO[base])
    if layout == "T" and t.dim() >= 2:
        t = t.transpose(-1, -2).contiguous().transpose(-1, -2)
    elif layout == "strided":
        big = t.repeat_interleave(2, dim=-1)
        big[..., 1::2] = 7
        t = big[..., ::2]
    return t
SHAPES = ["flat", "row", "matrix"]


def build(values, container, shape, mshape):
    """values: flat list of ints (one state). Returns the state in the requested container/shape or None if not applicable."""
    if shape == "matrix" and mshape is None:
        return None
    if shape == "flat":
        data = list(values)
    elif shape == "row":
        data = [list(values)]
    else:
        n, m = mshape
        data = [list(values[r * m : (r + 1) * m]) for r in range(n)]
    if container == "list":
        return data
    if ":" in container and shape == "flat" and not container.endswith("strided"):
        return None  # a 1-D array has one layout
    return _wrap(data, container)


def build_batch(rows, container, mshape, shape):
    """several states at once (2-D batch, or 3-D for matrix shape)"""
    if shape == "flat":
        return None
    if shape == "matrix":
        if mshape is None:
            return None
        n, m = mshape
        data = [[list(r[a * m : (a + 1) * m]) for a in range(n)] for r in rows]
    else:
        data = [list(r) for r in rows]
    if container == "list":
        return data
    if ":" in container and shape == "flat" and not container.endswith("strided"):
        return None  # a 1-D array has one layout
    return _wrap(data, container)


def canon(x):
    if x is None:
        return None
    if isinstance(x, (list, tuple)):
        return [canon(v) for v in x]
    if hasattr(x, "tolist"):
        return np.asarray(x.cpu() if hasattr(x, "cpu") else x).reshape(-1).tolist()
    if hasattr(x, "edges"):
        return [canon(x.start_state), list(x.edges)]
    if hasattr(x, "path_found"):
        return [bool(x.path_found), int(x.path_length), x.path]
    if hasattr(x, "layer_sizes"):
        return [list(x.layer_sizes), {int(k): sorted(map(tuple, np.asarray(v).reshape(len(v), -1).tolist())) for k, v in x.layers.items()}]
    return x


def entry_points(gd, cfg, orbit, rng):
    """Returns [(name, fn(state_builder) -> canonical result, takes_batch)]. Each fn builds a FRESH graph."""
    size = len(gd.central)
    s1 = list(rng.choice(orbit))
    s2 = list(rng.choice(orbit))
    path = [rng.randrange(len(gd.gens)) for _ in range(4)]
    ic = gd.definition().generators_inverse_closed

    def G():
        return gd.graph(**cfg)

    def bfs_r(g):
        return g.bfs(return_all_hashes=True, max_diameter=3)

    eps = [
        ("bfs(start_states=single)", lambda b: canon(G().bfs(start_states=b(s1))), s1),
        ("apply_path", lambda b: canon(G().apply_path(b(s1), path)), s1),
        ("find_path_to", lambda b: (lambda g: canon(g.find_path_to(b(s1), bfs_r(g))))(G()), s1),
        ("mitm.find_path_to", lambda b: (lambda g: canon(MeetInTheMiddle.find_path_to(g, b(s1), bfs_r(g))))(G()), s1),
        ("mitm.find_path_between", lambda b: (lambda g: canon(MeetInTheMiddle.find_path_between(g, b(s1), b(s2), 8)))(G()), s1),
        ("beam_search", lambda b: canon(G().beam_search(start_state=b(s1), beam_width=10**6, max_steps=40, return_path=True)), s1),
        ("beam_search(advanced)", lambda b: canon(G().beam_search(start_state=b(s1), beam_mode="advanced", beam_width=10**6, max_steps=40)), s1),
        ("random_walks(bfs)", lambda b: (lambda r: [sorted(zip(map(tuple, np.asarray(r[0]).reshape(len(r[1]), -1).tolist()), r[1].tolist()))])(G().random_walks(start_state=b(s1), mode="bfs", width=10**6, length=100)), s1),
        ("random_walks(classic,seeded)", lambda b: (lambda g: (torch.manual_seed(5), canon(list(g.random_walks(start_state=b(s1), width=3, length=5))))[1])(G()), s1),
        ("find_path", lambda b: canon(find_path(G(), b(s1))), s1),
        ("with_central_state", lambda b: canon(CayleyGraph(gd.definition().with_central_state(b(s1)), **cfg).bfs(max_diameter=2)), s1),
        ("get_neighbors_decoded", lambda b: canon(G().get_neighbors_decoded(b(s1))), s1),
    ]
    if ic:
        eps.append(("find_path_from", lambda b: (lambda g: canon(g.find_path_from(b(s1), bfs_r(g))))(G()), s1))
        eps.append(("mitm.find_path_from", lambda b: (lambda g: canon(MeetInTheMiddle.find_path_from(g, b(s1), bfs_r(g))))(G()), s1))
    if gd.kind == "perm":
        eps.append(("CayleyGraphDef.create(central_state)", lambda b: canon(CayleyGraph(CayleyGraphDef.create(gd.gens, central_state=b(s1)), **cfg).bfs(max_diameter=2)), s1))
        eps.append(("create_graph(central_state)", lambda b: canon(create_graph(generators_permutations=gd.gens, central_state=b(s1), **cfg).bfs(max_diameter=2)), s1))
    else:
        eps.append(("for_matrix_group(central_state)", lambda b: canon(CayleyGraph(CayleyGraphDef.for_matrix_group(generators=gd.definition().generators_matrices, central_state=b(s1)), **cfg).bfs(max_diameter=2)), s1))
    return eps, s1, s2


def run_graph(ck, gd, cfg, label):
    rng = ck.rng
    layers = gd.brute_layers(cap=3000)
    orbit = [s for l in layers for s in l]
    mshape = (gd.n, gd.m) if gd.kind == "mat" else None
    eps, s1, s2 = entry_points(gd, cfg, orbit, rng)
    for name, fn, val in eps:
        st, ref = algos.call(lambda: fn(lambda v: list(v)))
        if st != "ok":
            ck.violation(f"C13/{name}/reference-cell-error", f"{name} raised for the plain flat list: {ref}", {"case": {"gd": gd.to_json(), "cfg": cfg, "entry": name, "state": val}})
            continue
        for container in CONTAINERS:
            for shape in SHAPES:
                probe = build(val, container, shape, mshape)
                if probe is None:
                    continue
                if container == "list" and shape == "flat":
                    continue
                if name.startswith(("with_central_state", "CayleyGraphDef.create", "create_graph", "for_matrix_group")) and shape == "matrix" and gd.kind == "perm":
                    continue
                cell = {"gd": gd.to_json(), "cfg": cfg, "entry": name, "container": container, "shape": shape, "state": list(val)}
                ck.case(["cell", label, name, container, shape], True, sample={"graph": label, "entry": name, "container": container, "shape": shape})
                ck.count("entry:" + name)
                ck.count("container:" + container)
                made = []

                def tracked(v, container=container, shape=shape, made=made):
                    obj = build(v, container, shape, mshape)
                    snap = obj.clone() if hasattr(obj, "clone") else obj.copy() if hasattr(obj, "copy") and not isinstance(obj, list) else json.loads(json.dumps(obj))
                    made.append((obj, snap))
                    return obj

                st, out = algos.call(lambda: fn(tracked))  # pylint: disable=cell-var-from-loop
                for obj, snap in made:
                    same = bool((obj == snap).all()) if hasattr(obj, "shape") else obj == snap
                    if not same:
                        ck.violation(f"C13/{name}/input-mutated/{container.split('.')[0]}", f"{name} modified the state object supplied by the caller ({container} {shape})", {"case": cell, "before": canon(snap), "after": canon(obj)})
                        break
                enc = "unencoded" if cfg.get("bit_encoding_width", "auto") is None else "encoded"
                if st != "ok":
                    ck.violation(f"C13/{name}/{container.split('.')[0]}/{shape}/{enc}/{gd.kind}/error", f"{name} raised for {container} {shape}: {out}", {"case": cell, "observed": out})
                elif out != ref:
                    ck.violation(f"C13/{name}/{container.split('.')[0]}/{shape}/{enc}/{gd.kind}/differs", f"{name} gives a different result for {container} {shape} than for the flat list", {"case": cell, "expected": str(ref)[:400], "observed": str(out)[:400]})
    # batches of start states
    rows = [list(rng.choice(orbit)) for _ in range(3)]
    st, ref = algos.call(lambda: canon(gd.graph(**cfg).bfs(start_states=[list(r) for r in rows])))
    for container in CONTAINERS:
        for shape in ("row", "matrix"):
            b = build_batch(rows, container, mshape, shape)
            if b is None or (container == "list" and shape == "row"):
                continue
            ck.case(["batch", label, container, shape], True)
            ck.count("entry:bfs(start_states=batch)")
            st2, out = algos.call(lambda: canon(gd.graph(**cfg).bfs(start_states=b)))  # pylint: disable=cell-var-from-loop
            if st2 != "ok" or out != ref:
                ck.violation(f"C13/bfs-batch/{container.split('.')[0]}/{shape}/{gd.kind}", f"bfs(start_states=batch) differs for {container} {shape}: {str(out)[:120]}", {"case": {"gd": gd.to_json(), "cfg": cfg, "entry": "bfs-batch", "container": container, "shape": shape, "rows": rows}})
    # matrix generators built repeatedly from ONE caller-owned object (several moduli): the object must stay untouched
    # and every generator must equal the one built from a plain list
    if gd.kind == "mat":
        from cayleypy import MatrixGenerator

        base = [[(3 * r + 5 * c + 4) % 11 for c in range(gd.n)] for r in range(gd.n)]
        for container in CONTAINERS:
            obj = base if container == "list" else _wrap(base, container)
            snap = json.loads(json.dumps(base))
            ck.case(["matgen-reuse", label, container], True)
            ck.count("entry:MatrixGenerator.create(reused object)")
            for modulo in (3, 8, 0, 5):
                st, g = algos.call(lambda: MatrixGenerator.create(obj, modulo=modulo))  # pylint: disable=cell-var-from-loop
                want = [[v % modulo if modulo else v for v in row] for row in base]
                now = np.asarray(obj).tolist()
                if st != "ok" or g.matrix.tolist() != want or now != snap:
                    ck.violation(f"C13/matrix-generator-reuse/{container.split('.')[0]}", f"MatrixGenerator.create from a reused {container} object: generator or the caller's object is wrong (modulo {modulo})", {"case": {"gd": gd.to_json(), "cfg": cfg, "entry": "matgen-reuse", "container": container}, "generator": None if st != "ok" else g.matrix.tolist(), "expected": want, "callers_object_now": now})
                    break
    # generators in containers
    if gd.kind == "perm":
        ref = canon(CayleyGraph(CayleyGraphDef.create(gd.gens, central_state=gd.central), **cfg).bfs())
        for container in CONTAINERS[1:]:
            arr = _wrap(gd.gens, container)
            ck.case(["gens", label, container], True)
            ck.count("entry:CayleyGraphDef.create(generators)")
            st, out = algos.call(lambda: canon(CayleyGraph(CayleyGraphDef.create(arr, central_state=gd.central), **cfg).bfs()))  # pylint: disable=cell-var-from-loop
            if st != "ok" or out != ref:
                ck.violation(f"C13/create-generators/{container.split('.')[0]}", f"generators given as {container} change the graph: {str(out)[:120]}", {"case": {"gd": gd.to_json(), "cfg": cfg, "entry": "generators", "container": container}})
        # central state as a string of digits (documented)
        if max(gd.central) <= 9:
            ck.case(["str", label], True)
            ck.count("entry:central_state=str")
            sdef = gd.definition().with_central_state("".join(map(str, gd.central)))
            if sdef.central_state != gd.central:
                ck.violation("C13/central-state-str", "central state given as a string of digits differs", {"case": {"gd": gd.to_json(), "entry": "str"}})


def graphs_under_test(ck):
    n = 30
    out = []
    lrx = lambda k: [[(i + 1) % k for i in range(k)], [(i - 1) % k for i in range(k)], [1, 0] + list(range(2, k))]  # noqa: E731
    out.append((graphs.GDef("perm", lrx(6), list(range(6)), tag="lrx6"), {"bit_encoding_width": "auto", "random_seed": 1}, "lrx6-auto"))
    out.append((graphs.GDef("perm", lrx(6), [0, 0, 1, 1, 2, 2], tag="lrx6-coset"), {"bit_encoding_width": None, "random_seed": 1}, "lrx6-coset-unencoded"))
    # 30 entries of width 5: two words, entry values up to 29, generator index arithmetic beyond int8
    loc = [list(range(n)) for _ in range(3)]
    loc[0][27], loc[0][28], loc[0][29] = 28, 29, 27
    loc[1][12], loc[1][13] = 13, 12
    loc[2][13], loc[2][27] = 27, 13
    out.append((graphs.GDef("perm", loc + [graphs.inv_perm(loc[0])], list(range(n)), tag="local30"), {"bit_encoding_width": 5, "random_seed": 1}, "local30-w5-two-words"))
    out.append((graphs.GDef("perm", [[1, 2, 3, 4, 0], [1, 0, 2, 3, 4]], list(range(5)), tag="lx5-directed"), {"bit_encoding_width": 3, "random_seed": 1}, "lx5-directed-w3"))
    out.append((graphs.GDef("mat", [[1, 1, 0, 1], [1, 0, 1, 1], [1, 4, 0, 1], [1, 0, 4, 1]], [1, 0, 0, 1], n=2, m=2, modulo=5, tag="sl2mod5"), {"random_seed": 1}, "sl2-mod5"))
    out.append((graphs.GDef("mat", [[1, 1, 0, 0, 1, 0, 0, 0, 1], [1, 0, 0, 0, 1, 1, 0, 0, 1], [1, 2, 0, 0, 1, 0, 0, 0, 1], [1, 0, 0, 0, 1, 2, 0, 0, 1]], [1, 0, 0, 0, 1, 0, 0, 0, 1], n=3, m=3, modulo=3, tag="heis3"), {"random_seed": 1}, "heisenberg3-mod3"))
    if ck.thorough:
        for _ in range(14):
            gd = graphs.gen_def(ck.rng, mat_share=0.3)
            ly = gd.brute_layers(cap=800)
            if ly is None or len(ly) < 3 or max(map(abs, gd.central)) > 100 or (gd.kind == "mat" and gd.modulo == 0):
                continue
            cfg = graphs.gen_cfg(ck.rng, gd)
            if cfg.get("random_seed") is None:
                # every cell builds a FRESH graph: without a seed their hash orders differ and equally short paths,
                # thinned walks, pruned beams legitimately differ between cells (false alarm seen in the thorough tier)
                cfg["random_seed"] = ck.rng.choice([0, 1, 7, 123456789])
            out.append((gd, cfg, "generated-" + gd.tag))
    return out


def check_narrow_model(ck):
    """The model of the bit-serial encoder run on a NARROW tensor (no widening cast) against torch's real semantics:
    `StringEncoder.encode` itself does not cast, so calling it with an int8/int16/int32/uint8 tensor reproduces what
    `encode_states` did before the cast was added.  Ties `Cv.Normalize.encodeNarrow(U)` to torch type promotion."""
    from cayleypy.string_encoder import StringEncoder

    drv = ck.driver()
    rng = ck.rng
    for _ in range(120 if not ck.thorough else 2000):
        bits, sgn, dt = rng.choice([(8, 1, torch.int8), (16, 1, torch.int16), (32, 1, torch.int32), (8, 0, torch.uint8), (64, 1, torch.int64)])
        w = rng.choice([1, 2, 3, 5, 7])
        n = rng.choice([2, 3, 5, 8, 9, 13, 20, 30])
        hi = min(2**w, 2 ** (bits - sgn))
        row = [rng.randrange(hi) for _ in range(n)]
        try:
            real = StringEncoder(code_width=w, n=n).encode(torch.tensor([row], dtype=dt))[0].tolist()
        except (RuntimeError, AssertionError, OverflowError):
            ck.count("narrow:torch-raises")
            continue
        m = drv.ask(f"enc.narrow {bits} {sgn} {w} {n} ; {' '.join(map(str, row))}")
        ck.case(["narrow", bits, sgn, w, n, row], True)
        ck.count("narrow-encoder-model:" + str(dt).replace("torch.", ""))
        if m != " ".join(str(v & ((1 << 64) - 1)) for v in real):
            ck.correspondence_break("encodeNarrow (model of the un-widened encoder) differs from torch", {"bits": bits, "signed": sgn, "w": w, "n": n, "row": row, "model": m[:200], "torch": real})
            return


def main():
    ck = Check("C13")
    if ck.replay:
        body = json.load(open(os.path.join(VERIF, ck.replay) if not os.path.isabs(ck.replay) else ck.replay))
        c = body["case"]
        gd = graphs.GDef.from_json(c["gd"])
        run_graph(ck, gd, c.get("cfg", {}), "replay")
        ck.finish(rule="replay: the whole cell product on the recorded graph")
    ck.lean_obligations("CvProps.C13", THEOREMS)
    check_narrow_model(ck)
    for gd, cfg, label in graphs_under_test(ck):
        if ck.enough():
            break
        run_graph(ck, gd, cfg, label)
    ck.assumptions = ["values are chosen to fit every dtype of the product (entries <= 100); strings only where documented (central state of digits)"]
    ck.finish(
        rule="complete product {entry points taking states} x {list, np.int8/16/32/64/uint8, torch.uint8/int16/int32/int64} x {flat, one-row batch, matrix-shaped} on 6 fixed graphs (encoded single word, un-encoded, two-word width 5 with n = 30, directed, two matrix graphs); every cell must equal the flat-list cell",
        exhaustive=True,
    )


if __name__ == "__main__":
    from cv.core import run_main

    run_main(main)
