"""C05 — meet-in-the-middle search returns shortest paths within its stated radius."""

import json
import os
import sys

sys.path.insert(0, os.path.join(os.path.dirname(__file__), ".."))

from cv import algos, graphs  # noqa: E402
from cv.core import VERIF, Check  # noqa: E402
from cayleypy.algo import MeetInTheMiddle  # noqa: E402

THEOREMS = [
    "Cv.C05a.mitmFindPathTo_spec",
    "Cv.C05a.mitmFindPathTo_core",
    "Cv.C05a.mitmFindPathFrom_spec",
    "Cv.C05a.mitmFindPathFrom_core",
    "Cv.C05b.between_spec",
    "Cv.C05b.between_spec_noflag",
    "Cv.C05e.encoded_mitmFindPathTo_spec",
    "Cv.C05e.layer_le_of_closed",
    "Cv.C05e.encoded_mitmFindPathFrom_spec",
    "Cv.C05e.encoded_between_spec",
    "Cv.C05e.plain_mitmFindPathTo_spec",
    "Cv.C05e.plain_mitmFindPathFrom_spec",
    "Cv.C05e.plain_between_spec",
    "Cv.C05e.encoded_mitmFindPathTo_single_word",
    "Cv.C05e.encoded_between_single_word",
    "Cv.C05e.encoded1d_mitm_eq",
    "Cv.C05m.mat_mitmFindPathTo_spec",
    "Cv.C05m.mat_layer_le_of_closed",
    "Cv.C05m.mat_mitmFindPathFrom_spec",
    "Cv.C05m.mat_between_spec",
]


def gen_graph(ck, cap, min_layers=4):
    rng = ck.rng
    for _ in range(400):
        gd = graphs.gen_def(rng, mat_share=0.15)
        if gd.kind == "mat" and gd.inverse_candidates() is None:
            continue
        layers = gd.brute_layers(cap=cap)
        if layers is None or len(layers) < min_layers:
            continue
        return gd, layers
    raise RuntimeError("no graph")


def run_to(ck: Check, case: dict):
    gd = graphs.GDef.from_json(case["gd"])
    cfg, D, queries = case["cfg"], case["D"], case["queries"]
    ctx = algos.Ctx(ck, gd, cfg, extra_states=queries)
    if not ctx.ok:
        ck.count("skipped:" + ctx.reason.split(":")[0])
        return
    g = ctx.g
    st, r = algos.call(g.bfs, max_diameter=D, return_all_hashes=True)
    if st != "ok":
        ck.violation("C05/bfs-error", "BFS raised: " + r, {"case": case})
        return
    depth = r.diameter()
    lines = ctx.layers_line(r.layers_hashes)
    for q in queries:
        d = ctx.dist_from_central(q)
        reach = d is not None and d <= 2 * depth
        ck.case(["mitm.to", gd.key(), cfg, D, q], True, sample={"op": "find_path_to", "gd_tag": gd.tag, "cfg": cfg, "D": depth, "true_dist": d})
        ck.traces += 1
        ck.count("container:" + case.get("container", "list"))
        ck.count("to:" + ("in-ball" if d is not None and d <= depth else "beyond-ball<=2D" if reach else "beyond-2D" if d is not None else "unreachable"))
        if d is not None and d == 2 * depth:
            ck.count("to:exactly-2D")
        st, p = algos.call(MeetInTheMiddle.find_path_to, g, algos.container(case.get("container", "list"), q, (gd.n, gd.m) if gd.kind == "mat" else None), r)
        rep = {"case": dict(case, queries=[q], op="to"), "true_distance": d, "ball_depth": depth}
        if st != "ok":
            ck.violation("C05/find_path_to/error", "MITM find_path_to raised: " + p, dict(rep, observed=p))
            continue
        mres = algos.parse_path_res(ctx.drv.ask(f"mitm.to ; {lines} ; {gd.pack(q)}"))
        if not reach:
            if p is not None:
                end = ctx.apply_path(gd.central, p)
                if end != tuple(q):
                    ck.violation("C05/find_path_to/invalid", "returned path does not lead to the query", dict(rep, observed=p))
                else:
                    ck.violation("C05/find_path_to/beyond-radius", "returned a path although the true distance exceeds 2D", dict(rep, observed=p))
            elif mres[0] != "none":
                ck.correspondence_break("mitmFindPathTo: model finds a path where the implementation returns None", rep)
            continue
        if p is None:
            ck.violation("C05/find_path_to/missed", "no path returned although the true distance is at most 2D", rep)
            continue
        end = ctx.apply_path(gd.central, p)
        if end != tuple(q) or len(p) != d:
            ck.violation("C05/find_path_to/" + ("invalid" if end != tuple(q) else "not-shortest"), "path invalid or not shortest", dict(rep, observed=p))
            continue
        if mres[0] != "found" or len(mres[1]) != len(p):
            ck.correspondence_break("mitmFindPathTo: model and implementation differ (found / length)", dict(rep, model=mres, impl=p))
        elif mres[1] != p:
            ck.count("drift:mitm.to path differs (non-binding)")
        if g.definition.generators_inverse_closed:
            st, pf = algos.call(MeetInTheMiddle.find_path_from, g, algos.container(case.get("container", "list"), q, (gd.n, gd.m) if gd.kind == "mat" else None), r)
            if st != "ok" or pf is None or ctx.apply_path(q, pf) != tuple(gd.central) or len(pf) != d:
                ck.violation("C05/find_path_from/invalid", f"MITM find_path_from wrong: {pf}", dict(rep, observed=pf))
        ev = graphs.drain_events()
        if ev:
            ck.violation("C05/events", "library event during MITM: " + str(ev[0])[:100], dict(rep, events=[str(e)[:200] for e in ev[:3]]))


def run_between(ck: Check, case: dict):
    gd = graphs.GDef.from_json(case["gd"])
    cfg, S, T, M = case["cfg"], case["S"], case["T"], case["M"]
    ctx = algos.Ctx(ck, gd, cfg, extra_states=S + T)
    if not ctx.ok:
        ck.count("skipped:" + ctx.reason.split(":")[0])
        return
    g = ctx.g
    ls = ctx.spec_layers([gd.pack(s) for s in S])
    tset = {gd.pack(t) for t in T}
    best = None
    for i, l in enumerate(ls):
        if tset & set(l):
            best = i
            break
    reach = best is not None and best <= 2 * M
    ck.case(["between", gd.key(), cfg, S, T, M], True, sample={"op": "find_path_between", "gd_tag": gd.tag, "cfg": cfg, "|S|": len(S), "|T|": len(T), "M": M, "true_min": best})
    ck.traces += 1
    ck.count("between:" + ("intersect" if best == 0 else "within-2M" if reach else "beyond-2M" if best is not None else "unreachable"))
    if best is not None and best == 2 * M:
        ck.count("between:exactly-2M")
    st, res = algos.call(MeetInTheMiddle.find_path_between, g, algos.container(case.get("container", "torch.int64"), S, (gd.n, gd.m) if gd.kind == "mat" else None), algos.container(case.get("container", "torch.int64"), T, (gd.n, gd.m) if gd.kind == "mat" else None), M)
    rep = {"case": dict(case, op="between"), "true_min_distance": best}
    if st != "ok":
        ck.violation("C05/between/error", "find_path_between raised: " + res, dict(rep, observed=res))
        return
    mline = ctx.drv.ask(f"between {M} ; {' '.join(str(gd.pack(s)) for s in S)} ; {' '.join(str(gd.pack(t)) for t in T)}")
    if not reach:
        if res is not None:
            ck.violation("C05/between/beyond-radius-or-phantom", "a path was returned although the minimum distance exceeds 2*max_diameter (or no path exists)", dict(rep, observed=list(res.edges)))
        elif mline != "none":
            ck.correspondence_break("findPathBetween: model finds a path, implementation None", dict(rep, model=mline))
        return
    if res is None:
        ck.violation("C05/between/missed", "no path returned although the minimum distance is at most 2*max_diameter", rep)
        return
    start = tuple(algos.to_list(res.start_state))
    end = ctx.apply_path(start, list(res.edges))
    okS = start in {tuple(s) for s in S}
    okT = end in {tuple(t) for t in T}
    if not okS or not okT or len(res.edges) != best:
        kind = "start-not-in-S" if not okS else "end-not-in-T" if not okT else "not-minimal"
        ck.violation("C05/between/" + kind, "set-to-set path is invalid or not globally minimal", dict(rep, observed={"start": start, "edges": list(res.edges), "end": end}))
        return
    if not mline.startswith("found"):
        ck.correspondence_break("findPathBetween: model and implementation differ (found)", dict(rep, model=mline))
    else:
        ms, _, me = mline[len("found ") :].partition(";")
        medges = [int(x) for x in me.split()]
        if len(medges) != len(res.edges):
            ck.correspondence_break("findPathBetween: model and implementation differ (length)", dict(rep, model=mline))
        elif medges != list(res.edges) or int(ms) != gd.pack(start):
            ck.count("drift:between path differs (non-binding)")
    ev = graphs.drain_events()
    if ev:
        ck.violation("C05/events", "library event during find_path_between: " + str(ev[0])[:100], dict(rep, events=[str(e)[:200] for e in ev[:3]]))


def run_case(ck, case):
    if case.get("op") == "between" or "S" in case:
        run_between(ck, case)
    else:
        run_to(ck, case)


def gen_to(ck, cap):
    rng = ck.rng
    gd, layers = gen_graph(ck, cap)
    ecc = len(layers) - 1
    D = rng.choice([1, 1, 2, ecc // 2, max(1, ecc // 3), rng.randint(1, ecc)])
    D = max(1, D)
    queries = []
    for li in {min(ecc, D), min(ecc, D + 1), min(ecc, 2 * D), min(ecc, 2 * D + 1), rng.randint(0, ecc), ecc}:
        queries.append(list(rng.choice(layers[li])))
    flat = [x for q in queries for x in q]
    return {"gd": gd.to_json(), "cfg": graphs.gen_cfg(rng, gd), "D": D, "queries": queries, "container": algos.pick_container(rng, max(flat), min(flat))}


def gen_between(ck, cap):
    rng = ck.rng
    gd, layers = gen_graph(ck, cap)
    orbit = [s for l in layers for s in l]
    ecc = len(layers) - 1
    S = [list(rng.choice(orbit)) for _ in range(rng.randint(1, 5))]
    mode = rng.random()
    if mode < 0.2:
        T = [list(rng.choice(S))] + [list(rng.choice(orbit)) for _ in range(rng.randint(0, 3))]
    elif mode < 0.4:
        s = tuple(rng.choice(S))
        T = [list(gd.act(rng.randrange(len(gd.gens)), s))]
    else:
        T = [list(rng.choice(orbit)) for _ in range(rng.randint(1, 5))]
    if rng.random() < 0.4:
        S.append(list(S[0]))
        rng.shuffle(S)
    if rng.random() < 0.4:
        T.append(list(T[-1]))
        rng.shuffle(T)
    M = rng.choice([0, 1, 1, 2, 3, (ecc + 1) // 2, ecc])
    flat = [x for q in S + T for x in q]
    return {"gd": gd.to_json(), "cfg": graphs.gen_cfg(rng, gd), "S": S, "T": T, "M": M, "op": "between", "container": algos.pick_container(rng, max(flat), min(flat))}


def main():
    ck = Check("C05")
    if ck.replay:
        body = json.load(open(os.path.join(VERIF, ck.replay) if not os.path.isabs(ck.replay) else ck.replay))
        ck.guard(run_case, ck, body["case"])
        ck.finish(rule="replay of one recorded case")
    ck.lean_obligations(['CvProps.C05a', 'CvProps.C05b', "CvProps.C05e", "CvProps.C05m"], THEOREMS)
    for case in json.load(open(os.path.join(VERIF, "harness", "corpus", "C05.json"))):
        ck.guard(run_case, ck, case)
        ck.count("corpus")
    cap = 800 if not ck.thorough else 15000
    for _ in range(45 if not ck.thorough else 1500):
        if ck.enough():
            break
        run_to(ck, gen_to(ck, cap))
    for _ in range(90 if not ck.thorough else 3000):
        if ck.enough():
            break
        run_between(ck, gen_between(ck, cap))
    ck.assumptions = ["hash injective on everything touched (H2 events are violations)", "find_path_between is always called with an explicit depth limit (the default 10^9 makes an unreachable pair loop; performance is out of scope)"]
    ck.finish(rule="generated definitions with constructible inverse; find_path_to at ball depths D with queries at distances D, D+1, 2D, 2D+1, ecc; set-to-set with sets of size 1-6 (duplicates, shuffles, overlaps, one step apart) and depth limits 0..ecc; judged by the proven reference BFS (minimum over pairs) and replay with plain integer arithmetic")


if __name__ == "__main__":
    from cv.core import run_main

    run_main(main)
