"""C06 — beam search never reports a path that does not exist, and is exact when unpruned."""

import json
import os
import sys

sys.path.insert(0, os.path.join(os.path.dirname(__file__), ".."))

import torch  # noqa: E402

from cv import algos, graphs  # noqa: E402
from cv.core import VERIF, Check  # noqa: E402
from cayleypy import Predictor  # noqa: E402

THEOREMS = [
    "Cv.c6b_pathHyp",
    "Cv.beamSimple_sound_noball",
    "Cv.beamSimple_sound_ball",
    "Cv.beamSimple_sound_ball_valid",
    "Cv.c6b_symm",
    "Cv.c6b_invMap",
    "Cv.c6b_ball",
    "Cv.beamAdvanced_sound",
    "Cv.beam_length_ge_dist",
    "Cv.beam_length_ge_dist_ball",
    "Cv.beam_length_ge_dist_advanced",
    "Cv.beam_unreachable_not_found",
    "Cv.beam_unreachable_not_found_ball",
    "Cv.beam_unreachable_not_found_advanced",
    "Cv.c6b_walk3",
    "Cv.c6b_unreachable",
    "Cv.beamSimple_exact_unpruned",
    "Cv.c6b_dist",
    "Cv.c6b_wide",
    "Cv.beamAdvanced_exact_unpruned",
    "Cv.C06e.encoded_beamSimple_sound_noball",
    "Cv.C06e.encoded_beamSimple_sound_ball",
    "Cv.C06e.encoded_bfs_hashes_isBall",
    "Cv.C06e.encoded_beamAdvanced_sound",
    "Cv.C06e.encoded_beam_length_ge_dist",
    "Cv.C06e.encoded_beam_length_ge_dist_ball",
    "Cv.C06e.encoded_beam_length_ge_dist_advanced",
    "Cv.C06e.encoded_beam_unreachable_not_found",
    "Cv.C06e.encoded_beam_unreachable_not_found_ball",
    "Cv.C06e.encoded_beam_unreachable_not_found_advanced",
    "Cv.C06e.encoded_beamSimple_exact_unpruned",
    "Cv.C06e.encoded_beamAdvanced_exact_unpruned",
    "Cv.C06e.plain_beamSimple_sound_noball",
    "Cv.C06e.plain_beamSimple_sound_ball",
    "Cv.C06e.plain_bfs_hashes_isBall",
    "Cv.C06e.plain_beamAdvanced_sound",
    "Cv.C06e.plain_beam_length_ge_dist",
    "Cv.C06e.plain_beam_unreachable_not_found",
    "Cv.C06e.plain_beamSimple_exact_unpruned",
    "Cv.C06e.plain_beamAdvanced_exact_unpruned",
]


class ArgsortRecorder:
    """Records every result of torch.argsort while active (the model replays these choices)."""

    def __init__(self):
        self.calls = []

    def __enter__(self):
        self.orig = torch.argsort

        def rec(*a, **kw):
            out = self.orig(*a, **kw)
            self.calls.append(out.tolist())
            return out

        torch.argsort = rec
        return self

    def __exit__(self, *exc):
        torch.argsort = self.orig
        return False


def make_predictor(kind, ctx, rng_seed):
    g, gd = ctx.g, ctx.gd
    if kind == "hamming":
        return None
    if kind == "zero":
        return Predictor(g, "zero")
    if kind == "const":
        return Predictor(g, lambda x: torch.full((x.shape[0],), 3.5))
    dist_to_central = ctx.dist_to_central

    def rows(x):
        return gd.pack_rows(x)

    if kind == "anti":
        return Predictor(g, lambda x: torch.tensor([-float(dist_to_central.get(k, 99)) for k in rows(x)]))
    if kind == "true":
        return Predictor(g, lambda x: torch.tensor([float(dist_to_central.get(k, 99)) for k in rows(x)]))
    if kind == "table":
        import random

        r = random.Random(rng_seed)
        tab = {}

        def f(x):
            return torch.tensor([tab.setdefault(k, r.random()) for k in rows(x)])

        return Predictor(g, f)
    raise ValueError(kind)


def exact_reach(ctx, start, steps):
    """R_k = states reachable from `start` by a walk of exactly k edges, k = 0..steps (plain Python sets)."""
    gd = ctx.gd
    cur = {tuple(start)}
    out = [cur]
    for _ in range(steps):
        cur = {gd.act(i, s) for s in cur for i in range(len(gd.gens))}
        out.append(cur)
    return out


def run_case(ck: Check, case: dict):
    gd = graphs.GDef.from_json(case["gd"])
    cfg = case["cfg"]
    ctx = algos.Ctx(ck, gd, cfg, extra_states=[case["start"]] + ([case["dest"]] if case.get("dest") else []))
    if not ctx.ok:
        ck.count("skipped:" + ctx.reason.split(":")[0])
        return
    g = ctx.g
    start = case["start"]
    target = case.get("dest") or list(gd.central)  # explicit destination_state (advanced mode only)
    dmap = ctx.dists_from(start)
    d = dmap.get(gd.pack(target))
    # distance of every state TO the central state (for the adversarial predictors): BFS in the inverted graph = distances from central when closed
    ctx.dist_to_central = {}
    if g.definition.generators_inverse_closed:
        ctx.dist_to_central = ctx.dist
    mode, width, steps, hist, rp, pred_kind, ball_depth = (case[k] for k in ["mode", "width", "steps", "hist", "return_path", "predictor", "ball_depth"])
    kw = {"start_state": list(start), "beam_mode": mode, "beam_width": width, "max_steps": steps}
    pred = make_predictor(pred_kind, ctx, case.get("pseed", 0))
    if pred is not None:
        kw["predictor"] = pred
    ball = None
    if mode == "simple":
        kw["return_path"] = rp
        if ball_depth is not None:
            # a ball may also be handed over WITHOUT per-layer hashes and with gaps in its stored layers (nothing can be
            # found through it then; whatever IS reported must still be a real walk)
            bkw = {"return_all_hashes": True} if not case.get("ball_nohash") else {"return_all_hashes": False, "max_layer_size_to_store": case.get("ball_store", 2)}
            st, ball = algos.call(g.bfs, max_diameter=ball_depth if not case.get("ball_nohash") else 10**6, **bkw)
            if st != "ok":
                ck.violation("C06/bfs-error", "BFS raised: " + ball, {"case": case})
                return
            kw["bfs_result_for_mitm"] = ball
    else:
        kw["history_depth"] = hist
        if case.get("dest") is not None:
            kw["destination_state"] = list(case["dest"])
    search = g.beam_search
    if case.get("warm"):
        # one BeamSearchAlgorithm object reused: earlier searches (same parameters, other start states) must not matter
        from cayleypy.algo import BeamSearchAlgorithm

        alg = BeamSearchAlgorithm(g)
        for ws in case["warm"]:
            algos.call(alg.search, **dict(kw, start_state=list(ws)))
        search = alg.search
        ck.count("algorithm object reused after %d earlier searches" % len(case["warm"]))
    with ArgsortRecorder() as rec:
        st, res = algos.call(search, **kw)
    unpruned = width > len(ctx.states)
    ck.case(["beam", gd.key(), cfg, {k: case[k] for k in case if k not in ("gd", "cfg")}], True, sample={k: case[k] for k in case if k not in ("gd",)} | {"gd_tag": gd.tag, "true_dist": d})
    ck.traces += 1
    ck.count(f"mode:{mode}")
    ck.count(f"predictor:{pred_kind}")
    ck.count("reachable" if d is not None else "unreachable")
    ck.count("unpruned" if unpruned else "pruned" if rec.calls else "narrow-never-filled")
    ck.count("ball" if ball is not None else "noball")
    if case.get("dest") is not None:
        ck.count("explicit-destination:" + ("=start" if list(case["dest"]) == list(start) else "=central" if list(case["dest"]) == list(gd.central) else "other"))
    rep = {"case": case, "true_distance": d}
    ic = g.definition.generators_inverse_closed
    if st != "ok":
        if ball is not None and not ic and "inverse-closed" in res:
            ck.count("rejected:ball-on-directed-graph (documented precondition)")
            return
        ck.violation("C06/error/" + mode + ("/matrix" if gd.kind == "mat" else ""), "beam_search raised: " + res, dict(rep, observed=res))
        return
    # ---- the property, judged by the Spec
    if res.path_found:
        L = res.path_length
        reach = exact_reach(ctx, start, L)[L] if L <= 4 * len(ctx.states) + 5 else set()
        if d is None or L < d or tuple(target) not in reach:
            ck.violation("C06/phantom/" + mode + ("/ball" if ball is not None else "") + ("/dest" if case.get("dest") else ""), "reported length is not the length of a real walk from the start state to the target", dict(rep, observed={"path_length": L, "path": res.path}))
            return
        if res.path is not None:
            if len(res.path) != L or ctx.apply_path(start, res.path) != tuple(target):
                ck.violation("C06/bad-path/" + mode, "returned path does not replay to the central state with the reported length", dict(rep, observed={"path_length": L, "path": res.path}))
                return
        elif mode == "simple" and rp:
            ck.violation("C06/no-path-returned", "return_path=True but no path in a successful result", rep)
            return
    if unpruned and d is not None and steps >= d and not (ball is not None and case.get("ball_nohash")):
        if not res.path_found or res.path_length != d:
            ck.violation("C06/not-exact-unpruned/" + mode + ("/dest" if case.get("dest") else ""), "unpruned beam with sufficient steps did not succeed with exactly the shortest distance", dict(rep, observed={"found": res.path_found, "path_length": res.path_length}))
            return
    # ---- correspondence with the model under the recorded choices
    pruned_steps = sorted(res.debug_scores.keys())
    if len(pruned_steps) != len(rec.calls):
        ck.count("drift:argsort calls not aligned with debug_scores (correspondence skipped)")
        return
    sel = {}
    for stp, idx in zip(pruned_steps, rec.calls):
        sel[stp if mode == "simple" else stp - 1] = idx[:width]
    nsel = (max(sel) + 1) if sel else 0
    sel_line = " | ".join(" ".join(map(str, sel.get(i, []))) for i in range(nsel))
    if mode == "simple":
        if ball is not None and case.get("ball_nohash"):
            ck.count("ball-without-hashes (model not run)")
            return
        ball_line = "noball" if ball is None else ctx.layers_line(ball.layers_hashes)
        m = ctx.drv.ask(f"beam.simple {width} {steps} {1 if rp else 0} ; {gd.pack(start)} ; {ball_line} ; {sel_line}")
    else:
        m = ctx.drv.ask(f"beam.adv {width} {steps} {hist} ; {gd.pack(start)} ; {gd.pack(target)} ; {sel_line}")
    if m == "assert":
        ck.correspondence_break("beam model trips an assertion where the implementation returns a result", dict(rep, impl={"found": res.path_found, "len": res.path_length}))
        return
    head, _, tail = m.partition(";")
    mf, ml = head.split()
    mpath = None if tail.strip() == "nopath" else [int(x) for x in tail.split()[1:]]
    if (mf == "1") != res.path_found or (res.path_found and int(ml) != res.path_length):
        ck.correspondence_break("beam: model and implementation differ (found / length) under the recorded choices", dict(rep, model=m[:200], impl={"found": res.path_found, "len": res.path_length}))
        # search for a property-level failure next to the disagreement: the same case with an unpruned beam and enough
        # steps (exactness is then claimed), and with a width-1 / short-budget beam (soundness)
        if not case.get("_amplified"):
            big = len(ctx.states) * max(1, len(gd.gens)) + 5
            need = (d if d is not None else 0) + len(ctx.layers) + 1
            for wv, sv in ((big, max(steps, need)), (big, d if d is not None else steps), (1, max(steps, need)), (width, max(steps, need))):
                if ck.enough():
                    break
                ck.guard(run_case, ck, dict(case, width=wv, steps=sv, _amplified=True))
    elif not res.path_found and mode == "advanced" and int(ml) != res.path_length:
        ck.count("drift:advanced not-found step count differs (non-binding)")
    elif res.path is not None and mpath != res.path:
        ck.count("drift:beam path differs (non-binding)")
    ev = graphs.drain_events()
    if ev:
        ck.violation("C06/events", "library event during beam search: " + str(ev[0])[:100], dict(rep, events=[str(e)[:200] for e in ev[:3]]))


def gen_case(ck, cap):
    rng = ck.rng
    for _ in range(400):
        gd = graphs.gen_def(rng, mat_share=0.25)
        if gd.kind == "mat" and gd.inverse_candidates() is None:
            continue
        layers = gd.brute_layers(cap=cap)
        if layers is None or len(layers) < 3:
            continue
        orbit = [s for l in layers for s in l]
        ecc = len(layers) - 1
        n_states = len(orbit)
        ic = all(graphs.inv_perm(p) in gd.gens for p in gd.gens) if gd.kind == "perm" else None
        start = list(rng.choice(orbit))
        if rng.random() < 0.1:
            start = list(gd.central)
        elif rng.random() < 0.12:
            # a start state outside the orbit: the central state is unreachable from it
            i = rng.randrange(len(start))
            start[i] = (start[i] + 1) % (max(gd.central) + 1 if gd.kind == "perm" and max(gd.central) > 0 else 2 if gd.kind == "perm" else (gd.modulo or 3))
        mode = rng.choice(["simple", "simple", "advanced"])
        width = rng.choice([1, 2, 3, 5, 10, n_states + 1, n_states * len(gd.gens) + 5])
        steps = rng.choice([1, 2, ecc, ecc + 1, 3 * ecc + 3, 50])
        dest = None
        if mode == "advanced" and rng.random() < 0.45:
            r = rng.random()
            dest = list(start) if r < 0.2 else list(gd.central) if r < 0.3 else list(rng.choice(orbit))
            if r >= 0.3 and rng.random() < 0.3:
                start = list(gd.central)
        c = {
            "gd": gd.to_json(),
            "cfg": graphs.gen_cfg(rng, gd),
            "dest": dest,
            "start": start,
            "mode": mode,
            "width": width,
            "steps": steps,
            "hist": rng.choice([0, 0, 1, 2, 3]),
            "return_path": rng.random() < 0.6,
            "predictor": rng.choice(["hamming", "hamming", "zero", "const", "anti", "true", "table"]),
            "ball_depth": (rng.choice([0, 1, 2, 3]) if (mode == "simple" and rng.random() < 0.45 and (ic or rng.random() < 0.2)) else None),
            "pseed": rng.randrange(10**6),
            "ball_nohash": rng.random() < 0.25,
            "ball_store": rng.choice([1, 2, 3, 5]),
            "warm": [list(rng.choice(orbit)) for _ in range(rng.randint(1, 3))] if rng.random() < 0.3 else None,
        }
        return c
    raise RuntimeError("no case")


def main():
    ck = Check("C06")
    if ck.replay:
        body = json.load(open(os.path.join(VERIF, ck.replay) if not os.path.isabs(ck.replay) else ck.replay))
        ck.guard(run_case, ck, body["case"])
        ck.finish(rule="replay of one recorded case")
    ck.lean_obligations(["CvProps.C06", "CvProps.C06e"], THEOREMS)
    for case in json.load(open(os.path.join(VERIF, "harness", "corpus", "C06.json"))):
        ck.guard(run_case, ck, case)
        ck.count("corpus")
    for _ in range(260 if not ck.thorough else 5000):
        if ck.enough():
            break
        ck.guard(run_case, ck, gen_case(ck, 500 if not ck.thorough else 8000))
    # balls with more than 256 layers (a token on a cycle of 540..570 positions): the layer that is hit has a 9-bit index
    for _ in range(1 if not ck.thorough else 8):
        if ck.enough():
            break
        L = ck.rng.randint(540, 570)  # at least 540: the depth range below needs 257 <= L // 2 - 12 (530..537 made randint raise)
        gens = [[(i + 1) % L for i in range(L)], [(i - 1) % L for i in range(L)]]
        central = [0] * L
        central[0] = 1
        gd = graphs.GDef("perm", gens, central, tag="long-cycle")
        depth = ck.rng.randint(257, min(275, L // 2 - 12))
        extra = ck.rng.randint(1, 8)
        start = [0] * L
        start[(depth + extra) * ck.rng.choice([1, -1]) % L] = 1
        cfg = graphs.gen_cfg(ck.rng, gd)
        cfg["batch_size"] = 2**20
        cfg["bit_encoding_width"] = ck.rng.choice([None, 1, "auto"])  # wide codes make the bit-by-bit encoder slow on 540 points
        case = {"gd": gd.to_json(), "cfg": cfg, "dest": None, "start": start, "mode": "simple", "width": 4 * L, "steps": extra + ck.rng.randint(0, 3), "hist": 0, "return_path": ck.rng.random() < 0.5,
                "predictor": "hamming", "ball_depth": depth, "pseed": 0, "ball_nohash": False, "ball_store": 2, "warm": None}  # fmt: skip
        ck.guard(run_case, ck, case)
        ck.count("balls with more than 256 layers")
    ck.assumptions = [
        "torch.argsort results are recorded and replayed by the model; the theorems hold for every selection",
        "a BFS ball on non-inverse-closed generators is rejected up front by the (repaired) code; counted, not judged",
    ]
    ck.finish(rule="generated definitions (permutation and matrix) x start states x both modes x beam widths 1..unpruned x step budgets x history depths 0-3 x predictors {hamming, zero, constant, anti-distance, true distance, random table} x with/without path x with/without ball of depth 0-3; judged by exact-length reachability sets and Spec distances")


if __name__ == "__main__":
    from cv.core import run_main

    run_main(main)
