"""C09 — an early-stopped BFS returns exactly the documented prefix of the full BFS."""

import json
import os
import sys

sys.path.insert(0, os.path.join(os.path.dirname(__file__), ".."))

from cv import bfsrun, graphs  # noqa: E402
from cv.core import VERIF, Check  # noqa: E402

THEOREMS = [
    "Cv.bfs_sizes_prefix",
    "Cv.bfs_sizes_pos",
    "Cv.bfs_completed_sound",
    "Cv.bfs_stopped_by_rule",
    "Cv.bfs_no_early_stop",
    "Cv.bfs_stored_sound",
    "Cv.bfs_stored_iff",
    "Cv.bfs_hashes_rule",
    "Cv.bfs_callback_trace",
    "Cv.C09e.encoded_bfs_sizes_prefix",
    "Cv.C09e.encoded_bfs_sizes_pos",
    "Cv.C09e.encoded_bfs_completed_sound",
    "Cv.C09e.encoded_bfs_stopped_by_rule",
    "Cv.C09e.encoded_bfs_no_early_stop",
    "Cv.C09e.encoded_bfs_stored_sound",
    "Cv.C09e.encoded_bfs_stored_iff",
    "Cv.C09e.encoded_bfs_hashes_rule",
    "Cv.C09e.encoded_bfs_callback_trace",
    "Cv.C09e.plain_bfs_sizes_prefix",
    "Cv.C09e.plain_bfs_sizes_pos",
    "Cv.C09e.plain_bfs_completed_sound",
    "Cv.C09e.plain_bfs_stopped_by_rule",
    "Cv.C09e.plain_bfs_no_early_stop",
    "Cv.C09e.plain_bfs_stored_sound",
    "Cv.C09e.plain_bfs_stored_iff",
    "Cv.C09e.plain_bfs_hashes_rule",
    "Cv.C09e.plain_bfs_callback_trace",
    "Cv.C09e.encoded1d_bfs_eq",
    "Cv.C09e.single_word_bfs_sizes_prefix",
    "Cv.C09e.single_word_bfs_sizes_pos",
    "Cv.C09e.single_word_bfs_completed_sound",
    "Cv.C09e.single_word_bfs_stopped_by_rule",
    "Cv.C09e.single_word_bfs_no_early_stop",
    "Cv.C09e.single_word_bfs_stored_sound",
    "Cv.C09e.single_word_bfs_stored_iff",
    "Cv.C09e.single_word_bfs_hashes_rule",
    "Cv.C09e.single_word_bfs_callback_trace",
]


def stop_fires(stop, i, layer):
    if stop is None or stop[0] in ("none", "never"):
        return False
    if stop[0] == "at":
        return i == stop[1]
    if stop[0] == "size":
        return len(layer) >= stop[1]
    if stop[0] == "has":
        return stop[1] in layer
    raise ValueError(stop)


def expected_prefix(layers, opts, stop):
    """The documented rule, stated independently of the code, over the true distance classes `layers`."""
    opts = bfsrun.with_defaults(opts)
    limit = opts.get("max_layer_size_to_store", 1000) or 10**15
    max_d = opts.get("max_diameter", 1000000)
    max_e = opts.get("max_layer_size_to_explore", 10**12)
    sizes = [len(layers[0])]
    stored = {0: sorted(layers[0])}
    cb = []
    completed = False
    for i in range(1, max_d + 1):
        if i >= len(layers):
            completed = True
            break
        L = layers[i]
        sizes.append(len(L))
        if len(L) <= limit:
            stored[i] = sorted(L)
        if len(L) >= max_e:
            break
        if stop is not None and stop[0] != "none":
            cb.append(i)
            if stop_fires(stop, i, L):
                break
    last = len(sizes) - 1
    if completed:
        stored[last] = sorted(layers[last])
    return {
        "sizes": sizes,
        "completed": completed,
        "stored": stored,
        "n_hashes": len(sizes) if opts.get("return_all_hashes") else 0,
        "hash_lens": sizes if opts.get("return_all_hashes") else [],
        "cb": cb,
        "cb_sizes": [sizes[i] for i in cb],
        "diameter": last,
        "num_vertices": sum(sizes),
    }


KEYS = ["sizes", "completed", "stored", "n_hashes", "hash_lens", "cb", "cb_sizes", "diameter", "num_vertices"]
MODEL_KEYS = ["sizes", "completed", "stored", "n_hashes", "hash_lens", "cb"]


def run_case(ck: Check, case: dict):
    gd = graphs.GDef.from_json(case["gd"])
    cfg, opts, starts, stop = case["cfg"], case["opts"], case.get("starts"), case.get("stop")
    stop = tuple(stop) if stop else None
    drv = ck.driver()
    r = gd.send(drv)
    if isinstance(r[0], str):
        ck.correspondence_break("model rejects a definition the generator considers valid", {"case": case, "model": r[0]})
        return
    starts_packed = [gd.pack(s) for s in starts] if starts is not None else [gd.pack(gd.central)]
    layers = bfsrun.spec_layers(drv, starts_packed)
    exp = expected_prefix(layers, opts, stop)
    impl = bfsrun.run_impl(gd, cfg, opts, starts=starts, stop=stop, limit_s=30, flavour=case.get("stop_flavour", "bool"))
    if stop:
        ck.count("callback reports as:" + case.get("stop_flavour", "bool"))
    mod = bfsrun.run_model(drv, gd, cfg, opts, starts_packed, stop=stop)
    rule = (
        "completed"
        if exp["completed"]
        else "depth"
        if len(exp["sizes"]) - 1 == opts.get("max_diameter", 10**6)
        else "size"
        if exp["sizes"][-1] >= opts.get("max_layer_size_to_explore", 10**12)
        else "callback"
    )
    ck.case(["C09", gd.key(), cfg, opts, starts, stop], len(layers) >= 3, sample={"gd": gd.to_json(), "cfg": cfg, "opts": opts, "stop": stop, "expected_sizes": exp["sizes"], "true_sizes": [len(l) for l in layers]})
    ck.traces += 1
    ck.count("rule:" + rule)
    ck.count("stop:" + (stop[0] if stop else "none"))
    ck.count("hashes" if opts.get("return_all_hashes") else "nohashes")
    ck.count("edges" if opts.get("return_all_edges") else "noedges")
    dm = bfsrun.compare(mod, exp, MODEL_KEYS)
    if dm:
        ck.correspondence_break("model bfs differs from the stopping rule stated over the Spec oracle", {"case": case, "keys": dm})
    if "error" in impl:
        ck.violation(
            signature="C09/error/" + impl["error"].split(":")[0],
            what="BFS raised on an input inside the property's domain: " + impl["error"],
            replay={"case": case, "expected": {k: exp[k] for k in ["sizes", "completed", "cb"]}, "observed": impl["error"]},
        )
        return
    di = bfsrun.compare(impl, exp, KEYS)
    if impl["events"]:
        di.append("events")
    if not impl["hashes_match_layers"]:
        di.append("hashes_match_layers")
    if di:
        ck.violation(
            signature="C09/" + "+".join(di) + "/" + rule,
            what=f"early-stopped BFS differs from the documented prefix on {di} (rule that should fire: {rule})",
            replay={
                "case": case,
                "differs_on": di,
                "expected": {k: exp[k] for k in ["sizes", "completed", "cb", "n_hashes"]} | {"stored_keys": sorted(exp["stored"])},
                "observed": {k: impl[k] for k in ["sizes", "completed", "cb", "n_hashes", "events"]} | {"stored_keys": sorted(impl["stored"])},
            },
        )
        return
    dc = bfsrun.compare(impl, mod, MODEL_KEYS)
    if dc:
        ck.correspondence_break("implementation and model bfs differ", {"case": case, "keys": dc})


def gen_case(ck: Check, cap: int):
    rng = ck.rng
    for _ in range(500):
        gd = graphs.gen_def(rng)
        layers = gd.brute_layers(cap=cap)
        if layers is None or len(layers) < 3:
            continue
        sizes = [len(l) for l in layers]
        ecc = len(layers) - 1
        cfg = graphs.gen_cfg(rng, gd)
        if max(sizes) > 400 and cfg["batch_size"] < max(sizes) // 40:
            cfg["batch_size"] = rng.choice([max(sizes) // 40 + 1, max(sizes) // 7 + 1, max(sizes) + 1])
        opts = {
            "max_layer_size_to_store": rng.choice([None, 1, 2, 3, 1000, max(sizes), max(sizes) - 1]) or None,
            "return_all_hashes": rng.random() < 0.6,
            "return_all_edges": rng.random() < 0.2,
            "disable_batching": rng.random() < 0.2,
        }
        stop = None
        mode = rng.random()
        if mode < 0.35:
            opts["max_diameter"] = rng.randint(1, ecc + 2)
        elif mode < 0.6:
            opts["max_layer_size_to_explore"] = rng.choice([1, 2, rng.choice(sizes), rng.choice(sizes) + 1, max(sizes) + 1, max(1, rng.choice(sizes) // 2), rng.randint(1, max(sizes))])
        elif mode < 0.9:
            k = rng.random()
            if k < 0.4:
                stop = ("at", rng.randint(1, ecc + 1))
            elif k < 0.6:
                stop = ("size", rng.choice(sizes))
            elif k < 0.85:
                li = rng.randint(1, ecc)
                stop = ("has", gd.pack(rng.choice(layers[li])))
            else:
                stop = ("never",)
        # coinciding limits
        if rng.random() < 0.3:
            opts.setdefault("max_diameter", rng.randint(1, ecc + 1))
        if rng.random() < 0.2:
            opts.setdefault("max_layer_size_to_explore", rng.choice(sizes))
        starts = None
        if rng.random() < 0.3:
            # several start states: layer 0 is the (deduplicated) start set and is stored whatever the threshold
            orbit = [s for l in layers for s in l]
            starts = [list(s) for s in rng.sample(orbit, min(len(orbit), rng.randint(2, 6)))]
            if rng.random() < 0.4:
                starts.append(list(starts[0]))
        return {"gd": gd.to_json(), "cfg": cfg, "opts": opts, "starts": starts, "stop": list(stop) if stop else None, "stop_flavour": rng.choice(["bool", "bool", "torch", "numpy", "count"])}
    raise RuntimeError("no case")


def main():
    ck = Check("C09")
    if ck.replay:
        body = json.load(open(os.path.join(VERIF, ck.replay) if not os.path.isabs(ck.replay) else ck.replay))
        ck.guard(run_case, ck, body["case"])
        ck.finish(rule="replay of one recorded case")
    ck.lean_obligations(["CvProps.C09", "CvProps.C09e"], THEOREMS)
    for case in json.load(open(os.path.join(VERIF, "harness", "corpus", "C09.json"))):
        ck.guard(run_case, ck, case)
        ck.count("corpus")
    n = 150 if not ck.thorough else 4000
    cap = 1200 if not ck.thorough else 30000
    for _ in range(n):
        if ck.enough():
            break
        ck.guard(run_case, ck, gen_case(ck, cap))
    # the size limit firing INSIDE a layer that is expanded in several batches (limit strictly between two layer sizes)
    for _ in range(30 if not ck.thorough else 600):
        if ck.enough():
            break
        base = gen_case(ck, cap)
        gd = graphs.GDef.from_json(base["gd"])
        sizes = [len(l) for l in gd.brute_layers(cap=10**6)]
        ks = [k for k in range(2, len(sizes)) if sizes[k] >= 6 and max(sizes[:k]) + 1 < sizes[k]]
        if not ks:
            continue
        k = ck.rng.choice(ks)
        limit = ck.rng.randint(max(sizes[:k]) + 1, sizes[k] - 1)
        cfg = dict(base["cfg"], batch_size=ck.rng.choice([1, 2, 3, max(1, sizes[k - 1] // 3)]))
        opts = {"max_layer_size_to_explore": limit, "return_all_hashes": ck.rng.random() < 0.7, "max_layer_size_to_store": ck.rng.choice([None, 2, 1000])}
        ck.guard(run_case, ck, {"gd": base["gd"], "cfg": cfg, "opts": opts, "starts": None, "stop": None})
        ck.count("limit-inside-batched-layer")
    # all limit values 1..ecc+2 on a few graphs (exhaustive over the limit)
    for _ in range(4 if not ck.thorough else 20):
        if ck.enough():
            break
        base = gen_case(ck, 400)
        gd = graphs.GDef.from_json(base["gd"])
        ecc = len(gd.brute_layers(cap=10**6)) - 1
        for d in range(1, ecc + 3):
            c = dict(base, stop=None, opts={"max_diameter": d, "return_all_hashes": True, "max_layer_size_to_store": 2})
            ck.guard(run_case, ck, c)
            ck.count("limit-sweep")
    # directed graphs with 35..140 layers in which old layers are re-entered from much later ones, under every stopping rule
    for _ in range(4 if not ck.thorough else 40):
        if ck.enough():
            break
        gd = graphs.many_layer_directed_def(ck.rng, 34, 139)
        layers = gd.brute_layers(cap=3000)
        ecc = len(layers) - 1
        cfg = graphs.gen_cfg(ck.rng, gd)
        cfg["batch_size"] = ck.rng.choice([3, 50, 2**20])
        opts = {"max_layer_size_to_store": ck.rng.choice([None, 2, 1000]), "return_all_hashes": ck.rng.random() < 0.6, "return_all_edges": False, "disable_batching": ck.rng.random() < 0.3}
        stop = None
        r = ck.rng.random()
        if r < 0.4:
            opts["max_diameter"] = ck.rng.choice([33, 34, 36, 65, 66, ecc - 1, ecc, ecc + 2])
        elif r < 0.7:
            stop = ["at", ck.rng.choice([33, 35, 64, 66, ecc])]
        ck.guard(run_case, ck, {"gd": gd.to_json(), "cfg": cfg, "opts": opts, "starts": None, "stop": stop, "stop_flavour": "bool"})
        ck.count("many-layer directed graphs")
    ck.assumptions = ["hash injective on the explored set (hook H2); callbacks drawn from the families at/size/has/never"]
    ck.finish(
        rule="definitions as C01 with at least 3 layers x limits at/below/above the truth (depth, layer size, callbacks at/size/has/never, coinciding limits) x output options; "
        "expected result = documented rule evaluated over the Spec oracle's distance classes; distinct by canonical input"
    )


if __name__ == "__main__":
    from cv.core import run_main

    run_main(main)
