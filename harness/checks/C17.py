"""C17 — stored growth-function datasets agree with the graphs they describe."""

import csv
import glob
import json
import math
import os
import subprocess
import sys

sys.path.insert(0, os.path.join(os.path.dirname(__file__), ".."))

import numpy as np  # noqa: E402

from cv import graphs  # noqa: E402
from cv.core import REPO, VERIF, Check  # noqa: E402
from cayleypy import GapPuzzles, MatrixGroups, PermutationGroups, Puzzles  # noqa: E402

THEOREMS = [
    "Cv.refLayers_spec",
    "Cv.growth_prefix",
    "Cv.refLayers_orbit",
    "Cv.refLayersCap_prefix",
    "Cv.refLayersCap_exhausted",
    "Cv.refLayersCap_layers",
    "Cv.refLayersCapW_prefix",
    "Cv.refLayersCapW_exhausted",
    "Cv.refLayersCapW_layers",
]
PG, MG = PermutationGroups, MatrixGroups


def ints(key):
    return [int(x) for x in key.split(",")]


def sl_order(n, m):
    num, den = m ** (n * n - 1), 1
    ps = [p for p in range(2, m + 1) if m % p == 0 and all(p % q for q in range(2, p))]
    for p in ps:
        for k in range(2, n + 1):
            num *= p**k - 1
            den *= p**k
    return num // den


def multinomial(s):
    out = math.factorial(len(s))
    for c in set(s):
        out //= math.factorial(s.count(c))
    return out


PUZZLE = {
    "cube_222_atm": lambda: Puzzles.rubik_cube(2, "ATM"),
    "cube_222_fixed_htm": lambda: Puzzles.rubik_cube(2, "fixed_HTM"),
    "cube_222_fixed_qtm": lambda: Puzzles.rubik_cube(2, "fixed_QTM"),
    "cube_222_htm": lambda: Puzzles.rubik_cube(2, "HTM"),
    "cube_222_qstm": lambda: Puzzles.rubik_cube(2, "QSTM"),
    "cube_222_qtm": lambda: Puzzles.rubik_cube(2, "QTM"),
    "cube_333_htm": lambda: Puzzles.rubik_cube(3, "HTM"),
    "cube_333_qtm": lambda: Puzzles.rubik_cube(3, "QTM"),
    "mini_pyramorphix": Puzzles.mini_pyramorphix,
}

# dataset -> (key -> CayleyGraphDef, key -> known order of the group / orbit or None)
DATASETS = {
    "lrx_cayley_growth": (lambda k: PG.lrx(int(k)), lambda k: math.factorial(int(k))),
    "lx_cayley_growth": (lambda k: PG.lx(int(k)), lambda k: math.factorial(int(k))),
    "top_spin_cayley_growth": (lambda k: PG.top_spin(int(k)), None),
    "all_transpositions_cayley_growth": (lambda k: PG.all_transpositions(int(k)), lambda k: math.factorial(int(k))),
    "transposons_cayley_growth": (lambda k: PG.transposons(int(k)), lambda k: math.factorial(int(k))),
    "block_interchange_cayley_growth": (lambda k: PG.block_interchange(int(k)), lambda k: math.factorial(int(k))),
    "pancake_cayley_growth": (lambda k: PG.pancake(int(k)), lambda k: math.factorial(int(k))),
    "burnt_pancake_cayley_growth": (lambda k: PG.burnt_pancake(int(k)), lambda k: 2 ** int(k) * math.factorial(int(k))),
    "full_reversals_cayley_growth": (lambda k: PG.full_reversals(int(k)), lambda k: math.factorial(int(k))),
    "signed_reversals_cayley_growth": (lambda k: PG.signed_reversals(int(k)), lambda k: 2 ** int(k) * math.factorial(int(k))),
    "coxeter_cayley_growth": (lambda k: PG.coxeter(int(k)), lambda k: math.factorial(int(k))),
    "cyclic_coxeter_cayley_growth": (lambda k: PG.cyclic_coxeter(int(k)), lambda k: math.factorial(int(k))),
    "rapaport_m1_cayley_growth": (lambda k: PG.rapaport_m1(int(k)), lambda k: math.factorial(int(k))),
    "rapaport_m2_cayley_growth": (lambda k: PG.rapaport_m2(int(k)), lambda k: math.factorial(int(k))),
    "wrapped_k_cycles_cayley_growth": (lambda k: PG.wrapped_k_cycles(*ints(k)), None),
    "stars_cayley_growth": (lambda k: PG.stars(int(k)), lambda k: math.factorial(int(k))),
    "larx_cayley_growth": (lambda k: PG.larx(int(k)), None),
    "lsl_cycles_cayley_growth": (lambda k: PG.lsl_cycles(int(k)), None),
    "all_cycles_cayley_growth": (lambda k: PG.all_cycles(int(k)), lambda k: math.factorial(int(k))),
    "increasing_k_cycles_cayley_growth": (lambda k: PG.increasing_k_cycles(*ints(k)), None),
    "consecutive_k_cycles_cayley_growth": (lambda k: PG.consecutive_k_cycles(*ints(k)), None),
    "down_cycles_cayley_growth": (lambda k: PG.down_cycles(int(k)), None),
    "prefix_cycles_cayley_growth": (lambda k: PG.prefix_cycles(int(k)), None),
    "derangements_cayley_growth": (lambda k: PG.derangements(int(k)), None),
    "involutive_derangements_cayley_growth": (lambda k: PG.involutive_derangements(int(k)), None),
    "lrx_coset_growth": (lambda k: PG.lrx(len(k)).with_central_state(k), multinomial),
    "top_spin_coset_growth": (lambda k: PG.top_spin(len(k)).with_central_state(k), None),
    "hungarian_rings_growth": (lambda k: Puzzles.hungarian_rings(*ints(k)), None),
    "globes_growth": (lambda k: Puzzles.globe_puzzle(*ints(k)), None),
    "heisenberg_growth": (lambda k: MG.heisenberg(n=ints(k)[0], modulo=ints(k)[1]), lambda k: ints(k)[1] ** (2 * ints(k)[0] - 3)),
    "sl_2_fund_roots_growth": (lambda k: MG.special_linear_fundamental_roots(2, modulo=int(k)), lambda k: sl_order(2, int(k))),
    "sl_3_fund_roots_growth": (lambda k: MG.special_linear_fundamental_roots(3, modulo=int(k)), lambda k: sl_order(3, int(k))),
    "sl_2_root_weyl_growth": (lambda k: MG.special_linear_root_weyl(2, modulo=int(k)), lambda k: sl_order(2, int(k))),
    "sl_3_root_weyl_growth": (lambda k: MG.special_linear_root_weyl(3, modulo=int(k)), lambda k: sl_order(3, int(k))),
    "puzzles_growth": (lambda k: PUZZLE[k]() if k in PUZZLE else GapPuzzles.puzzle(k), None),
}


def to_gdef(d):
    if d.is_permutation_group():
        return graphs.GDef("perm", d.generators_permutations, d.central_state)
    gens = [[int(x) for x in g.matrix.reshape(-1)] for g in d.generators_matrices]
    n = d.generators_matrices[0].n
    return graphs.GDef("mat", gens, d.central_state, n=n, m=len(d.central_state) // n, modulo=d.generators_matrices[0].modulo)


def sympy_orders(jobs):
    """Group orders by Schreier-Sims in the tooling venv's sympy (independent oracle); {} when unavailable."""
    if not jobs:
        return {}
    prog = (
        "import json,sys\nfrom sympy.combinatorics import Permutation, PermutationGroup\n"
        "jobs=json.load(sys.stdin)\nout={}\n"
        "for k,g in jobs.items():\n"
        "    n=len(g[0])\n"
        "    inv=lambda p:[p.index(i) for i in range(n)]\n"
        "    out[k]=int(PermutationGroup([Permutation(p) for p in g]).order())\n"
        "print(json.dumps(out))\n"
    )
    try:
        r = subprocess.run(["python3-vt", "-c", prog], input=json.dumps(jobs), capture_output=True, text=True, timeout=600)
        return json.loads(r.stdout) if r.returncode == 0 else {}
    except (OSError, subprocess.TimeoutExpired, ValueError):
        return {}


_WDRV = None


def _worker_init():
    global _WDRV  # pylint: disable=global-statement
    from cv.core import Driver

    _WDRV = Driver()


def _worker_row(job):
    """(name, key, gdef json, cap, work) -> (name, key, reference sizes, flag) using this worker's own driver process"""
    name, key, gj, cap, work = job
    gd = graphs.GDef.from_json(gj)
    r = gd.send(_WDRV)
    if isinstance(r[0], str):
        return name, key, None, "model-rejects:" + r[0]
    line = _WDRV.ask(f"spec.growthw 1000000 {cap} {work} ; {gd.pack(gd.central)}")
    sizes_s, flag = [x.strip() for x in line.split(";")]
    return name, key, [int(x) for x in sizes_s.split()], flag


def fast_growth(gj, limit):
    """Exhaustive growth function by a vectorised NumPy BFS over states packed into one int64 (second oracle for rows
    the reference BFS cannot exhaust within its budget; validated on every use against the reference prefix).
    Returns the list of layer sizes, or None when the states do not fit one word or more than `limit` states are met."""
    import numpy as np

    gd = graphs.GDef.from_json(gj)
    size = len(gd.central)
    if gd.kind == "perm":
        base = max(gd.central) + 1
    else:
        if gd.modulo <= 0:
            return None
        base = gd.modulo
    if base**size >= 2**62:
        return None
    w = [base**i for i in range(size)]

    def unpack(codes):
        return np.stack([(codes // w[i]) % base for i in range(size)], axis=1)

    def pack(mat):
        return (mat * np.array(w, dtype=np.int64)).sum(axis=1)

    if gd.kind == "perm":
        idx = [np.array(p, dtype=np.int64) for p in gd.gens]

        def nbrs(codes):
            st = unpack(codes)
            return np.concatenate([pack(st[:, p]) for p in idx])

    else:
        n, m = gd.n, gd.m
        mats = [np.array(g, dtype=np.int64).reshape(n, n) for g in gd.gens]

        def nbrs(codes):
            st = unpack(codes).reshape(-1, n, m)
            return np.concatenate([pack((np.einsum("ij,bjk->bik", M, st) % base).reshape(-1, size)) for M in mats])

    start = np.array([sum(int(v) * w[i] for i, v in enumerate(gd.central))], dtype=np.int64)
    seen = start.copy()
    layer = start
    sizes = [1]
    while True:
        new = np.unique(np.concatenate([nbrs(layer[i : i + 200000]) for i in range(0, len(layer), 200000)]))
        pos = np.searchsorted(seen, new).clip(max=len(seen) - 1)
        new = new[seen[pos] != new]
        if len(new) == 0:
            return sizes
        sizes.append(int(len(new)))
        if sum(sizes) > limit:
            return None
        seen = np.union1d(seen, new)
        layer = new


def _worker_fast(job):
    name, key, gj, limit = job
    try:
        return name, key, fast_growth(gj, limit)
    except Exception as ex:  # pylint: disable=broad-except
        return name, key, "error: " + repr(ex)[:200]


def main():
    ck = Check("C17")
    ck.lean_obligations(['CvProps.C17', 'CvProps.C17b'], THEOREMS)
    drv = ck.driver()
    cap = 200000 if not ck.thorough else 1500000
    work = 1500000 if not ck.thorough else 30000000
    files = sorted(glob.glob(os.path.join(REPO, "cayleypy", "data", "*.csv")))
    rows = []
    for f in files:
        name = os.path.basename(f)[: -len(".csv")]
        with open(f, encoding="utf-8") as fh:
            for key, value in csv.reader(fh):
                rows.append((name, key, json.loads(value)))
    only = None
    if ck.replay:
        body = json.load(open(os.path.join(VERIF, ck.replay) if not os.path.isabs(ck.replay) else ck.replay))
        only = (body["case"]["dataset"], body["case"]["key"])
    unknown = sorted({n for n, _, _ in rows if n not in DATASETS})
    ck.obligation("every shipped dataset has a key -> graph mapping in the check", not unknown, unknown)
    # The graph a dataset row denotes must be the documented one whatever the library was used for before in this process:
    # a history of other constructor calls (all sizes that occur as keys, shuffled, seeded) comes first.
    hist = []
    for n in range(3, 21):
        hist += [(PG.sheveleva2, (n, k)) for k in range(1, n - 2)] + [(PG.koltsov3, (n, 2, k, 1)) for k in range(0, n - 3)]
        hist += [(PG.koltsov3, (n, 1, 0, 1)), (PG.rapaport_m1, (n,)), (PG.three_cycles_01i, (n,)), (PG.lsl_cycles, (n,)), (PG.cubic_pancake, (n, 1 + n % 7))]
        hist += [(PG.generalized_stars, (n, 1 + n % 2)), (PG.wrapped_k_cycles, (n, 2 + n % 2)), (PG.consecutive_k_cycles, (n, 2)), (PG.lrx, (n, 2))]
    ck.rng.shuffle(hist)
    for f_, a_ in hist:
        try:
            f_(*a_)
        except Exception:  # pylint: disable=broad-except
            pass
    ck.count("constructor calls made before the datasets' graphs were built", len(hist))
    # group orders for permutation Cayley graphs without a closed formula (identity central state)
    jobs = {}
    defs = {}
    for name, key, stored in rows:
        if only and (name, key) != only:
            continue
        if name not in DATASETS:
            continue
        try:
            d = DATASETS[name][0](key)
        except Exception as ex:  # pylint: disable=broad-except
            ck.violation("C17/constructor-error/" + name, f"the graph denoted by {name}[{key}] cannot be constructed: {type(ex).__name__}: {ex}", {"case": {"dataset": name, "key": key}})
            continue
        defs[(name, key)] = d
        if DATASETS[name][1] is None and d.is_permutation_group() and d.central_state == list(range(len(d.central_state))) and len(d.central_state) <= 40:
            jobs[name + "|" + key] = d.generators_permutations
    orders = sympy_orders(jobs)
    ck.extra["group_orders_by_sympy"] = len(orders)
    exact = prefix = summed = 0
    # the reference BFS runs in a pool of driver processes (one compiled driver per worker)
    import multiprocessing as mp

    jobs_rows = []
    for name, key, stored in rows:
        if (name, key) in defs:
            gdj = to_gdef(defs[(name, key)]).to_json()
            # big states (many stickers / big matrices) are slow per vertex: keep their budget small
            size = len(gdj["central"])
            scale = 1 if size <= 12 else 4 if size <= 24 else 25
            jobs_rows.append((name, key, gdj, max(2000, cap // scale), max(30000, work // scale)))
    jobs_rows.sort(key=lambda j: -j[3])
    nproc = max(1, min(14, (os.cpu_count() or 2) - 2))
    with mp.get_context("fork").Pool(nproc, initializer=_worker_init) as pool:
        refs = {(n_, k_): (ref_, fl_) for n_, k_, ref_, fl_ in pool.imap_unordered(_worker_row, jobs_rows, chunksize=1)}
        # rows the reference BFS could not exhaust but whose claimed total is small enough: exhaustive second oracle
        fast_limit = 1300000 if not ck.thorough else 8000000
        stored_of = {(n_, k_): st_ for n_, k_, st_ in rows}
        fast_jobs = [(n_, k_, gj_, fast_limit) for n_, k_, gj_, _c, _w in jobs_rows if refs.get((n_, k_), (None, ""))[1] != "exhausted" and refs.get((n_, k_), (None, ""))[0] is not None and sum(v for v in stored_of[(n_, k_)] if isinstance(v, int) and v > 0) <= fast_limit]
        fast = {(n_, k_): f_ for n_, k_, f_ in pool.imap_unordered(_worker_fast, fast_jobs, chunksize=1)}
    for name, key, stored in rows:
        if (name, key) not in defs or ck.enough():
            continue
        d = defs[(name, key)]
        gd = to_gdef(d)
        case = {"dataset": name, "key": key}
        ref, flag = refs.get((name, key), (None, "missing"))
        if ref is None:
            ck.correspondence_break("model rejects a library definition", {"case": case, "model": flag})
            continue
        ck.case(["row", name, key], len(stored) >= 3, sample={"dataset": name, "key": key, "stored": stored[:8], "reference": ref[:8], "reference_run": flag})
        ck.count("dataset:" + name)
        problems = []
        if not stored or stored[0] != 1 or any((not isinstance(v, int)) or v <= 0 for v in stored):
            problems.append("does not start with 1 or has a non-positive term")
        if flag == "exhausted":
            exact += 1
            ck.count("mode:exact")
            if stored != ref:
                problems.append("differs from the growth function computed by the reference BFS")
        else:
            prefix += 1
            ck.count("mode:prefix")
            if stored[: len(ref)] != ref:
                problems.append(f"first {len(ref)} terms differ from the reference BFS prefix")
            f2 = fast.get((name, key))
            if isinstance(f2, str):
                ck.count("second oracle failed (" + f2[:40] + ")")
            elif f2 is not None:
                # the NumPy oracle is only believed where it reproduces the proven reference BFS on the common prefix
                if f2[: len(ref)] != ref[: len(f2)]:
                    ck.correspondence_break("the vectorised second oracle disagrees with the reference BFS on their common prefix", {"case": case, "reference": ref, "second_oracle": f2})
                else:
                    ck.count("mode:prefix + exhaustive second oracle")
                    if stored != f2 and not problems:
                        problems.append("differs from the exhaustive growth function (vectorised NumPy BFS; agrees with the proven reference BFS on the first %d layers)" % min(len(ref), len(f2)))
                        case = dict(case, exhaustive_growth=f2)
        known = None
        if DATASETS[name][1] is not None:
            known = DATASETS[name][1](key)
        elif name + "|" + key in orders:
            known = orders[name + "|" + key]
        if known is not None:
            summed += 1
            ck.count("sum-checked")
            if sum(stored) != known:
                problems.append(f"sum {sum(stored)} is not the known order {known}")
        if problems:
            ck.violation(f"C17/{name}/{key}", f"dataset row {name}[{key}]: " + "; ".join(problems), {"case": case, "stored": stored, "reference": ref, "reference_run": flag, "known_order": known})
    ck.extra.update({"rows": len(rows), "rows_exact": exact, "rows_prefix": prefix, "rows_sum_checked": summed, "vertex_budget_per_row": cap, "neighbour_computations_per_step_budget": work})
    ck.assumptions = [
        "the graph a key denotes is the one the library constructor builds (the constructors are the subject of C15)",
        "known orders: closed formulas (n!, 2^n n!, multinomials, m^(2n-3), |SL_n(Z/m)|) or Schreier-Sims by sympy in the tooling venv (independent oracle; rows without either get no sum check)",
    ]
    ck.finish(
        rule=f"every row of every CSV under cayleypy/data; exact comparison when the reference BFS exhausts the orbit within {cap} vertices, otherwise positivity, prefix equality to the depth the budget allows and sum = known order; non-trivial = at least 3 terms",
        exhaustive=only is None,
    )


if __name__ == "__main__":
    from cv.core import run_main

    run_main(main)
