"""C11 — all BFS engines compute the same growth function."""

import json
import os
import sys

sys.path.insert(0, os.path.join(os.path.dirname(__file__), ".."))

import numpy as np  # noqa: E402

from cv import algos, graphs  # noqa: E402
from cv.core import VERIF, Check  # noqa: E402
from cayleypy import bfs_bitmask, bfs_numpy  # noqa: E402
from cayleypy.algo import InteractiveBfs  # noqa: E402
import importlib  # noqa: E402

bm = importlib.import_module("cayleypy.algo.bfs_bitmask")  # module with the rank helpers

THEOREMS = [
    "Cv.C11i.ibfs_layers",
    "Cv.bfsBitset_spec",
    "Cv.bfsNumpy_spec",
    "Cv.lexUnrank_lexRank",
    "Cv.lexRank_lt_factorial",
    "Cv.lexRank_injective",
    # bit-mask engine, word level (CvModel/Bitmask.lean mirrors bfs_bitmask.py; refinement to bfsBitset)
    "Cv.Bitmask.bitCount64_spec",
    "Cv.Bitmask.bitCount64Numba_spec",
    "Cv.Bitmask.bitCount_spec",
    "Cv.Bitmask.decode_encodePerm",
    "Cv.Bitmask.prefixPerm_spec",
    "Cv.Bitmask.prefixMap2_prefixMap1_spec",
    "Cv.Bitmask.rank_roundtrip",
    "Cv.Bitmask.rank_injective_in_chunk",
    "Cv.Bitmask.chunkOf_eq_iff",
    "Cv.Bitmask.chunk_keys_distinct",
    "Cv.Bitmask.chunk_count",
    "Cv.Bitmask.bfsBitmask_spec",
    "Cv.Bitmask.bfsBitmask_growth",
    "Cv.Bitmask.bfsBitmask_raises",
    "Cv.Bitmask.bfsBitmask_returns_iff",
    "Cv.Bitmask.bfsBitmask_n16",
    "Cv.Bitmask.bfsBitmask_asserts",
    "Cv.C11x.encoded_ibfs_layers",
    "Cv.C11x.plain_ibfs_layers",
    "Cv.C11x.single_word_ibfs_layers",
    "Cv.C11x.encoded_bfsNumpy_spec",
    "Cv.C11x.encoded_bfsNumpy_scalar",
]


def run_numpy(ck, case):
    gd = graphs.GDef.from_json(case["gd"])
    cfg = case["cfg"]
    ctx = algos.Ctx(ck, gd, cfg, cap=20000)
    if not ctx.ok:
        ck.count("skipped:" + ctx.reason.split(":")[0])
        return
    g = ctx.g
    true_sizes = [len(l) for l in ctx.layers]
    ck.case(["numpy", gd.key(), cfg], len(true_sizes) >= 2, sample={"engine": "numpy", "gd_tag": gd.tag, "n": len(gd.central), "gens": len(gd.gens), "sizes": true_sizes[:12]})
    ck.traces += 1
    ck.count("engine:numpy")
    ck.count("numpy:gens=" + str(len(gd.gens)))
    st, sizes = algos.call(bfs_numpy, g)
    rep = {"case": dict(case, engine="numpy"), "expected": true_sizes}
    if st != "ok":
        ck.violation("C11/numpy/error", "bfs_numpy raised on a graph in its documented domain: " + sizes, dict(rep, observed=sizes))
        return
    main_sizes = g.bfs().layer_sizes
    if list(sizes) != true_sizes or list(main_sizes) != true_sizes:
        ck.violation("C11/numpy/growth", "NumPy engine (or main BFS) does not produce the true growth function", dict(rep, observed=list(sizes), main_bfs=list(main_sizes)))
        return
    m = [int(x) for x in ctx.drv.ask(f"bfs.numpy 1000000 ; {gd.pack(gd.central)}").split()]
    if m != list(sizes):
        ck.correspondence_break("bfsNumpy: model and implementation differ", dict(rep, model=m))


def run_interactive(ck, case):
    gd = graphs.GDef.from_json(case["gd"])
    cfg, starts = case["cfg"], case["starts"]
    ctx = algos.Ctx(ck, gd, cfg, extra_states=starts, cap=4000)
    if not ctx.ok:
        ck.count("skipped:" + ctx.reason.split(":")[0])
        return
    g = ctx.g
    ls = ctx.spec_layers([gd.pack(s) for s in starts])
    true_sizes = [len(l) for l in ls]
    ck.case(["interactive", gd.key(), cfg, starts], len(true_sizes) >= 2, sample={"engine": "interactive", "gd_tag": gd.tag, "starts": len(starts), "sizes": true_sizes[:12]})
    ck.traces += 1
    ck.count("engine:interactive")
    rep = {"case": dict(case, engine="interactive"), "expected": true_sizes}

    def drive():
        b = InteractiveBfs(g, algos.states_tensor(starts))
        out = [sorted(gd.pack_rows(g.decode_states(b.cur_layer)))]
        for _ in range(len(true_sizes) + 1):
            b.step()
            out.append(sorted(gd.pack_rows(g.decode_states(b.cur_layer))))
        return out

    st, layers = algos.call(drive)
    if st != "ok":
        ck.violation("C11/interactive/error", "InteractiveBfs raised: " + layers, dict(rep, observed=layers))
        return
    want = [sorted(l) for l in ls] + [[], []]
    if layers != want[: len(layers)]:
        ck.violation("C11/interactive/layers", "interactive BFS layers are not the distance classes", dict(rep, observed=[len(l) for l in layers]))
        return
    st, r = algos.call(g.bfs, start_states=algos.states_tensor(starts))
    if st != "ok" or list(r.layer_sizes) != true_sizes:
        ck.violation("C11/main-bfs", "main BFS from the start set does not produce the true growth function", dict(rep, observed=str(r)[:200]))
        return
    m = [int(x) for x in ctx.drv.ask(f"ibfs {len(true_sizes) + 1} ; {' '.join(str(gd.pack(s)) for s in starts)}").split()]
    if m != [len(l) for l in layers]:
        ck.correspondence_break("IBfs: model and implementation differ", dict(rep, model=m))
    ev = graphs.drain_events()
    if ev:
        ck.violation("C11/events", "library event during interactive BFS: " + str(ev[0])[:100], dict(rep, events=[str(e)[:200] for e in ev[:3]]))


def run_walk(ck, case):
    """unthinned BFS-mode random walk = growth function"""
    gd = graphs.GDef.from_json(case["gd"])
    ctx = algos.Ctx(ck, gd, case["cfg"], cap=3000)
    if not ctx.ok:
        return
    true_sizes = [len(l) for l in ctx.layers]
    st, res = algos.call(ctx.g.random_walks, width=max(true_sizes) + 1, length=len(true_sizes) + 2, mode="bfs")
    ck.case(["walk", gd.key(), case["cfg"]], True)
    ck.count("engine:bfs-walk")
    if st != "ok":
        ck.violation("C11/walk/error", "random_walks raised: " + res, {"case": dict(case, engine="walk")})
        return
    ys = res[1].tolist()
    sizes = [ys.count(i) for i in range(max(ys) + 1)]
    if sizes != true_sizes:
        ck.violation("C11/walk/growth", "unthinned BFS-mode walk does not produce the true growth function", {"case": dict(case, engine="walk"), "expected": true_sizes, "observed": sizes})


def run_bitmask(ck, case):
    gd = graphs.GDef.from_json(case["gd"])
    maxd = case.get("max_diameter")
    drv = ck.driver()
    gd.send(drv)
    depth = maxd if maxd is not None else 10**9
    ls = [len(x.split()) for x in drv.ask(f"spec.layers {depth} ; {gd.pack(gd.central)}").split("|")]
    g = gd.graph()
    ck.case(["bitmask", gd.key(), maxd], True, sample={"engine": "bitmask", "n": len(gd.central), "gens": gd.gens, "max_diameter": maxd, "sizes": ls[:10]})
    ck.traces += 1
    ck.count("engine:bitmask")
    kw = {} if maxd is None else {"max_diameter": maxd}
    st, sizes = algos.call(bfs_bitmask, g, limit_s=600, **kw)
    rep = {"case": dict(case, engine="bitmask"), "expected": ls}
    if st != "ok":
        ck.violation("C11/bitmask/error", "bfs_bitmask raised on a graph in its documented domain: " + sizes, dict(rep, observed=sizes))
        return
    if list(sizes) != ls:
        ck.violation("C11/bitmask/growth", "bit-mask engine does not produce the true growth function", dict(rep, observed=list(sizes)))
        return
    n_pts = len(gd.central)
    if case.get("model", ck.thorough or (n_pts == 9 and maxd is not None) or (n_pts == 10 and maxd is not None and maxd <= 5)):
        # the word-level model of the engine (proved equal to the abstract bit-set BFS on this domain)
        m = drv.ask(f"bm ; BFS {len(gd.central)} {bm.R} {depth if maxd is not None else 1000000} | {' '.join(map(str, gd.central))} | " + " | ".join(" ".join(map(str, g_)) for g_ in gd.gens))
        if m != "OK " + " ".join(map(str, sizes)):
            ck.correspondence_break("bfsBitmask: model and implementation differ", dict(rep, model=m[:200], observed=list(sizes)))


def gen_bitmask_case(rng):
    """Random generator sets on n = 9..11 points inside the bit-mask engine's documented domain, with a depth limit
    that keeps the explored ball small.  Pieces: cyclic shifts, adjacent transpositions (biased to the trailing
    positions >= 8), cycles inside the trailing block, prefix reversals, random permutations; closed under inverses
    or not.  A set is rejected when it is outside the engine's exact domain ('generators move the trailing positions',
    made precise by theorem Cv.Bitmask.bfsBitmask_returns_iff)."""
    for _ in range(200):
        n = rng.choice([9, 10, 10, 11, 11])
        ident = list(range(n))
        pieces = []
        for _ in range(rng.randint(2, 4)):
            r = rng.random()
            if r < 0.25:
                k = rng.choice([1, 1, n - 1, 2])
                pieces.append([(i + k) % n for i in range(n)])
            elif r < 0.5:
                i = rng.choice([rng.randrange(n - 1), rng.randrange(7, n - 1)])
                p = list(ident)
                p[i], p[i + 1] = p[i + 1], p[i]
                pieces.append(p)
            elif r < 0.65 and n >= 10:
                tail = list(range(8, n))
                p = list(ident)
                for a, b in zip(tail, tail[1:] + tail[:1]):
                    p[a] = b
                pieces.append(p)
            elif r < 0.8:
                k = rng.randint(2, n)
                pieces.append(list(range(k - 1, -1, -1)) + list(range(k, n)))
            else:
                pieces.append(graphs.rand_perm(rng, n))
        if rng.random() < 0.5:
            pieces += [graphs.inv_perm(p) for p in pieces]
        gens = []
        for p in pieces:
            if p not in gens and p != ident:
                gens.append(p)
        if len(gens) < 2:
            continue
        central = ident if rng.random() < 0.7 else graphs.rand_perm(rng, n)
        # explore with plain tuples until the ball holds ~20000 states; check the single-chunk condition on the way
        seen = {tuple(central)}
        layer = [tuple(central)]
        depth = 0
        while layer and len(seen) < 20000 and depth < 12:
            by_chunk = {}
            for st in layer:
                by_chunk.setdefault(st[8:], []).append(st)
            nxt = []
            for sts in by_chunk.values():
                nb = {tuple(st[g[i]] for i in range(n)) for st in sts for g in gens}
                for x in nb:
                    if x not in seen:
                        seen.add(x)
                        nxt.append(x)
            layer = nxt
            depth += 1
        # the engine's exact domain (theorem Cv.Bitmask.bfsBitmask_returns_iff): one generator, or two generators that
        # differ at a trailing position i >= R
        ok = len(gens) == 1 or any(g[i] != h[i] for g in gens for h in gens for i in range(8, n))
        if not ok or depth < 2:
            continue
        return {"gd": graphs.GDef("perm", gens, list(central), tag="bitmask-random").to_json(), "max_diameter": None if not layer else depth, "engine": "bitmask"}
    raise RuntimeError("no bitmask case")


def check_bitmask_model(ck):
    """Kernel-level and whole-engine comparison of CvModel/Bitmask.lean with the real helpers (see cv/bitmask_corr.py)."""
    from cv import bitmask_corr

    drv = ck.driver()
    qs = bitmask_corr.kernel_queries(ck.rng, ck.thorough) + bitmask_corr.engine_queries(ck.rng, ck.thorough)
    for q, exp, label, binding in qs:
        got = drv.ask("bm ; " + q)
        ck.case(["bm", q[:200], len(q)], True)
        ck.count("bitmask-model:" + label.split(" (")[0].split(",")[0][:40])
        if got.strip() != exp.strip():
            if binding:
                ck.correspondence_break("bit-mask engine: model and implementation differ on " + label, {"query": q[:2000], "impl": exp[:500], "model": got[:500]})
            else:
                ck.count("drift:bit-mask engine raises a different exception outside its domain (non-binding)")


def check_rank_tables(ck):
    """rank / unrank of prefixes against the model's lexicographic rank (the tables are built at import)."""
    drv = ck.driver()
    rng = ck.rng
    R = bm.R
    n = 10
    for _ in range(40):
        suffix = rng.sample(range(n), n - R)
        ch = bm.VertexChunk(n, tuple(suffix))
        avail = [i for i in range(n) if i not in suffix]
        for _ in range(8):
            prefix = avail[:]
            rng.shuffle(prefix)
            p = prefix + list(suffix)
            enc = sum(p[i] << (4 * i) for i in range(n))
            rank = int(bm.permutation_to_rank.py_func(enc, ch.map2))
            back = int(bm.rank_to_permutation.py_func(rank, ch.map1)) | ch.encoded_suffix
            ck.case(["rank", suffix, prefix], True)
            ck.count("rank-roundtrip")
            if back != enc:
                ck.violation("C11/bitmask/rank-unrank", "unrank(rank(p)) != p", {"case": {"engine": "rank", "p": p}, "rank": rank})
                return
            rel = [avail.index(v) for v in prefix]
            m = int(drv.ask(f"lexrank ; {' '.join(map(str, rel))}"))
            if m != rank:
                ck.correspondence_break("lexRank (model) differs from permutation_to_rank", {"p": p, "model": m, "impl": rank})
                return
            mu = drv.ask(f"lexunrank {rank} ; {' '.join(map(str, range(R)))}")
            if [int(x) for x in mu.split()] != rel:
                ck.correspondence_break("lexUnrank (model) differs from rank_to_permutation", {"p": p, "model": mu})
                return


def gen_numpy(ck):
    rng = ck.rng
    if rng.random() < 0.2:
        gd, w = graphs.full_word_def(rng)
        return {"gd": gd.to_json(), "cfg": {"bit_encoding_width": rng.choice(["auto", w]) if max(gd.central) == 2**w - 1 else w, "random_seed": 1}}
    if rng.random() < 0.25:
        # codes that almost fill the 64-bit word (56..63 bits): long strings over 2 or 4 letters with few marked positions,
        # moved by a long cycle, its inverse and a few local permutations (with inverses): 3..7 generators
        # the number of generators fixes how many bits an index of a generator needs; the code length is chosen so that
        # code bits + index bits lands on / next to the word size
        def build(n_):
            out = []
            base_ = [list(range(1, n_)) + [0]]
            for mv in moves:
                p_ = list(range(n_))
                for a_, b_ in zip(mv, mv[1:] + mv[:1]):
                    p_[a_] = b_
                base_.append(p_)
            for p_ in base_ + [graphs.inv_perm(p_) for p_ in base_]:
                if p_ not in out:
                    out.append(p_)
            return out

        moves = [rng.sample(range(20), rng.randint(2, 3)) for _ in range(rng.randint(1, 3))]   # local cycles on low positions
        tag = max(1, (len(build(40)) - 1).bit_length())
        total = rng.choice([64, 64, 64, 63, 65, 62])
        w = rng.choice([1, 1, 2])
        bits = min(63, total - tag)
        bits -= bits % w
        n = bits // w
        gens = build(n)
        central = [0] * n
        marks = rng.sample(range(n), 2)
        central[marks[0]] = 1
        central[marks[1]] = rng.randrange(1, 2**w)
        if rng.random() < 0.5:
            central[n - 1] = 2**w - 1        # the highest code bits are used
        gd = graphs.GDef("perm", gens, central, tag="numpy-near-full-word")
        if gd.brute_layers(cap=20000) is not None:
            return {"gd": gd.to_json(), "cfg": {"bit_encoding_width": w, "random_seed": 1}}
    for _ in range(300):
        n = rng.randint(3, 12)
        k = rng.randint(1, 3)
        base = [graphs.rand_perm(rng, n) if rng.random() < 0.5 else graphs.local_perm(rng, n, rng.randint(2, min(4, n))) for _ in range(k)]
        gens = []
        for p in base + [graphs.inv_perm(p) for p in base]:
            if p not in gens:
                gens.append(p)
        colours = rng.choice([2, 2, 3, 4])
        central = [rng.randrange(colours) for _ in range(n)]
        if rng.random() < 0.2:
            central = [0] * n
        gd = graphs.GDef("perm", gens, central, tag="numpy-domain")
        w = max(1, max(central).bit_length())
        if n * w > 64:
            continue
        if gd.brute_layers(cap=20000) is None:
            continue
        return {"gd": gd.to_json(), "cfg": {"bit_encoding_width": rng.choice(["auto", w]), "random_seed": 1}}
    raise RuntimeError("no case")


def gen_interactive(ck):
    rng = ck.rng
    for _ in range(300):
        gd = graphs.gen_def(rng, mat_share=0.2)
        layers = gd.brute_layers(cap=1500)
        if layers is None or len(layers) < 3:
            continue
        orbit = [s for l in layers for s in l]
        starts = [list(rng.choice(orbit)) for _ in range(rng.randint(1, 5))]
        if rng.random() < 0.4:
            starts.append(list(starts[0]))
        rng.shuffle(starts)
        return {"gd": gd.to_json(), "cfg": graphs.gen_cfg(rng, gd), "starts": starts}
    raise RuntimeError("no case")


def main():
    ck = Check("C11")
    if ck.replay:
        body = json.load(open(os.path.join(VERIF, ck.replay) if not os.path.isabs(ck.replay) else ck.replay))
        c = body["case"]
        {"numpy": run_numpy, "interactive": run_interactive, "walk": run_walk, "bitmask": run_bitmask}.get(c.get("engine"), run_interactive)(ck, c)
        ck.finish(rule="replay of one recorded case")
    ck.lean_obligations(['CvProps.C11i', 'CvProps.C11e', 'CvProps.C11b', "CvProps.C11x"], THEOREMS)
    for case in json.load(open(os.path.join(VERIF, "harness", "corpus", "C11.json"))):
        {"numpy": run_numpy, "interactive": run_interactive, "walk": run_walk, "bitmask": run_bitmask}[case["engine"]](ck, case)
        ck.count("corpus")
    for _ in range(60 if not ck.thorough else 1500):
        if ck.enough():
            break
        run_numpy(ck, gen_numpy(ck))
    for _ in range(60 if not ck.thorough else 1500):
        if ck.enough():
            break
        run_interactive(ck, gen_interactive(ck))
    for _ in range(25 if not ck.thorough else 400):
        if ck.enough():
            break
        c = gen_interactive(ck)
        run_walk(ck, {"gd": c["gd"], "cfg": c["cfg"]})
    # deep directed graphs (many layers): the walk's seen-set is compacted several times
    for _ in range(12 if not ck.thorough else 200):
        if ck.enough():
            break
        gd = graphs.deep_directed_def(ck.rng)
        if gd.brute_layers(cap=3000) is None:
            continue
        run_walk(ck, {"gd": gd.to_json(), "cfg": graphs.gen_cfg(ck.rng, gd)})
        ck.count("walk:deep-directed")
    check_rank_tables(ck)
    ck.guard(check_bitmask_model, ck)
    # bit-mask engine: n = 9 (quick), n = 9 and 10 (thorough); inverse-closed and not; with and without depth limit
    n = 9
    lrx = [[(i + 1) % n for i in range(n)], [(i - 1) % n for i in range(n)], [1, 0] + list(range(2, n))]
    cases = [
        {"gd": graphs.GDef("perm", lrx, list(range(n)), tag="lrx9").to_json(), "max_diameter": None},
        {"gd": graphs.GDef("perm", [lrx[0], lrx[2]], list(range(n)), tag="lx9-directed").to_json(), "max_diameter": 7},
    ]
    if ck.thorough:
        n = 10
        p1 = [(i + 1) % n for i in range(n)]
        cases.append({"gd": graphs.GDef("perm", [p1, [1, 0] + list(range(2, n)), list(range(n - 3)) + [n - 1, n - 3, n - 2]], list(range(n)), tag="n10").to_json(), "max_diameter": 9})
        rp = graphs.rand_perm(ck.rng, 9)
        cases.append({"gd": graphs.GDef("perm", [rp, lrx[0], lrx[2]], list(range(9)), tag="random9").to_json(), "max_diameter": None})
    n = 10
    l10 = [(i + 1) % n for i in range(n)]
    cases.append({"gd": graphs.GDef("perm", [l10, [1, 0] + list(range(2, n)), list(range(8)) + [9, 8]], list(range(n)), tag="n10-trailing-swap").to_json(), "max_diameter": 6})
    for _ in range(8 if not ck.thorough else 80):
        cases.append(gen_bitmask_case(ck.rng))
    for c in cases:
        if ck.enough():
            break
        ck.guard(run_bitmask, ck, c)
    ck.assumptions = [
        "bit-mask engine: numba / NumPy execute what the word-level model CvModel/Bitmask.lean states (uint64 words, int64 typing of the pop-count, np.unique, np.roll/np.where); the model is compared with the real helpers kernel by kernel (all 40320 entries of both prefix tables, rank / unrank, materialize, generator routines, np.unique, group_starts) and on whole depth-limited runs",
        "bit-mask domain: exactly one generator, or two generators differing at a trailing position i >= 8 (theorem bfsBitmask_returns_iff; otherwise paint_gray indexes an empty group list), 9 <= n <= 15, default encoding",
    ]
    ck.finish(rule="NumPy engine on random distinct inverse-closed generator sets with coset central states (single word); interactive engine on generated graphs from start sets with duplicates; unthinned BFS-mode walks; bit-mask engine on n = 9 (full) and random generator sets on n = 9..11 (cyclic shifts, transpositions and cycles inside the trailing block, prefix reversals, random permutations; inverse-closed or not) with depth limits; all against the proven reference BFS")


if __name__ == "__main__":
    from cv.core import run_main

    run_main(main)
