"""C20 — permutation helpers satisfy the algebra the rest of the library assumes."""

import itertools
import json
import math
import os
import random as pyrandom
import sys
from collections import Counter

sys.path.insert(0, os.path.join(os.path.dirname(__file__), ".."))

from cv import graphs  # noqa: E402,F401  (sets up sys.path for /repo)
from cv.core import VERIF, Check  # noqa: E402
from cayleypy import permutation_utils as pu  # noqa: E402

THEOREMS = [
    "Cv.C20.isPerm_iff",
    "Cv.C20.apply_eq_apply?",
    "Cv.C20.apply_compose",
    "Cv.C20.compose_assoc",
    "Cv.C20.inverse_isPerm",
    "Cv.C20.inverse_getD",
    "Cv.C20.compose_inverse_right",
    "Cv.C20.compose_inverse_left",
    "Cv.C20.inverse_inverse",
    "Cv.C20.apply_identity",
    "Cv.C20.apply_inverse_cancel",
    "Cv.C20.transposition_spec",
    "Cv.C20.transposition_none_iff",
    "Cv.C20.fromCycles_spec",
    "Cv.C20.fromCycles_spec_general",
    "Cv.C20.fromCycles_isSome_iff_exact",
    "Cv.C20.fromCycles_some_iff",
    "Cv.C20.fromCycles_isSome_of_nodup",
    "Cv.C20.partitionToPermutation_isPerm",
    "Cv.C20.partitionToPermutation_type",
    "Cv.C20.conj_sound",
    "Cv.C20.conj_nodup",
    "Cv.C20.conj_complete",
    "Cv.C20.checkClass_sound",
]


# theorems `regenerated definition = hand-written model` (CvProps/C20g.lean; translator harness/extract/pylean.py)
GEN_THEOREMS = [
    "Cv.C20g.identity_perm_gen",
    "Cv.C20g.identity_perm_gen_neg",
    "Cv.C20g.apply_permutation_gen",
    "Cv.C20g.apply_permutation_gen_total",
    "Cv.C20g.compose_permutations_gen",
    "Cv.C20g.inverse_permutation_gen",
    "Cv.C20g.inverse_permutation_negative_index",
    "Cv.C20g.is_permutation_gen",
    "Cv.C20g.is_permutation_gen_neg",
    "Cv.C20g.transposition_gen",
    "Cv.C20g.transposition_gen_neg",
    "Cv.C20g.permutation_from_cycles_gen",
    "Cv.C20g.gen_is_permutation_iff",
    "Cv.C20g.gen_is_permutation_iff_isPermOf",
    "Cv.C20g.gen_compose_inverse_right",
    "Cv.C20g.gen_compose_inverse_left",
    "Cv.C20g.gen_inverse_inverse",
    "Cv.C20g.gen_inverse_is_permutation",
    "Cv.C20g.gen_apply_compose",
    "Cv.C20g.gen_compose_assoc",
    "Cv.C20g.gen_apply_identity",
    "Cv.C20g.gen_apply_inverse_cancel",
    "Cv.C20g.gen_transposition_spec",
    "Cv.C20g.gen_transposition_none_iff",
    "Cv.C20g.gen_fromCycles_spec",
    "Cv.C20g.gen_fromCycles_is_permutation",
    "Cv.C20g.gen_fromCycles_isSome_iff",
    "Cv.C20g.inverse_permutation_gen_none",
    "Cv.C20g.compose_permutations_gen_option",
    "Cv.C20g.is_permutation_gen_int",
    "Cv.C20g.permutation_from_cycles_gen_default",
    "Cv.C20g.transposition_gen_nonpos",
    "Cv.C20g.permutation_from_cycles_gen_neg",
]


from cv.pygen_corr import gen_tie  # noqa: E402


def L(xs):
    return " ".join(map(str, xs))


def cycle_type(p):
    seen, out = set(), []
    for i in range(len(p)):
        if i not in seen:
            k, j = 0, i
            while j not in seen:
                seen.add(j)
                j = p[j]
                k += 1
            out.append(k)
    return sorted(out)


def partitions(n, mx=None):
    mx = mx or n
    if n == 0:
        yield []
        return
    for k in range(min(n, mx), 0, -1):
        for r in partitions(n - k, k):
            yield [k] + r


def class_size(n, lens):
    c = Counter(lens)
    den = 1
    for k, m in c.items():
        den *= (k**m) * math.factorial(m)
    return math.factorial(n) // den


def check_pair(ck, drv, p, q, x):
    n = len(p)
    case = {"p": p, "q": q, "x": x}
    comp = pu.compose_permutations(p, q)
    inv = pu.inverse_permutation(p)
    ck.case(["pair", p, q, x], n >= 2)
    ok = (
        pu.apply_permutation(comp, x) == pu.apply_permutation(p, pu.apply_permutation(q, x))
        and pu.compose_permutations(p, inv) == list(range(n))
        and pu.compose_permutations(inv, p) == list(range(n))
        and pu.inverse_permutation(inv) == list(p)
        and pu.is_permutation(comp)
        and pu.is_permutation(inv)
        and pu.apply_permutation(inv, pu.apply_permutation(p, x)) == list(x)
    )
    if not ok:
        ck.violation("C20/group-law", "inversion/composition violate the group laws under the library's action convention", {"case": case, "compose": comp, "inverse": inv})
        return
    if drv.ask(f"perm.compose ; {L(p)} ; {L(q)}") != L(comp) or drv.ask(f"perm.inverse ; {L(p)}") != L(inv):
        ck.correspondence_break("compose/inverse: model and implementation differ", {"case": case})


def main():
    ck = Check("C20")
    rng = ck.rng
    ck.lean_obligations("CvProps.C20", THEOREMS)
    if not ck.replay:
        gen_tie(ck, "C20g", GEN_THEOREMS, ("perm",))
    drv = ck.driver()
    if ck.replay:
        body = json.load(open(os.path.join(VERIF, ck.replay) if not os.path.isabs(ck.replay) else ck.replay))
        c = body["case"]
        if "classes" in c:
            from cayleypy import PermutationGroups as PG

            d = PG.conjugacy_classes(c["n"], {tuple(k): v for k, v in c["classes"]})
            gens = [list(map(int, g)) for g in d.generators_permutations]
            pos = 0
            ck.case(["replay", c], True)
            for key, cnt in c["classes"]:
                lens = sorted(list(key) + [1] * (c["n"] - sum(key)))
                k = class_size(c["n"], lens) if cnt is None else cnt
                if any(cycle_type(g) != lens for g in gens[pos : pos + k]) or len(gens[pos : pos + k]) != k:
                    ck.violation("C20/conjugacy-classes/multi", f"class {key}: wrong cycle types", {"case": c})
                    break
                pos += k
        elif "q" in c:
            check_pair(ck, drv, c["p"], c["q"], c["x"])
        elif "cycles" in c:
            try:
                real = pu.permutation_from_cycles(c["n"], c["cycles"], offset=c["offset"])
            except (AssertionError, IndexError):
                real = None
            want = list(range(c["n"]))
            for cy in c["cycles"]:
                for a, b in zip(cy, cy[1:] + cy[:1]):
                    if 0 <= a - c["offset"] < c["n"]:
                        want[a - c["offset"]] = b - c["offset"]
            ck.case(["replay", c], True)
            if real != want:
                ck.violation("C20/from_cycles", "permutation_from_cycles does not yield exactly the given cycles", {"case": c, "observed": real, "expected": want})
        elif "cycle_lengths" in c and "n" in c:
            real = pu.permutations_with_cycle_lenghts(c["n"], c["cycle_lengths"])
            if "again" in c:  # recorded history: enumerate, overwrite the answer in place, enumerate again
                for p in real:
                    p.reverse()
                real = pu.permutations_with_cycle_lenghts(c["n"], c["again"])
            ck.case(["replay", c], True)
            if len({tuple(p) for p in real}) != len(real) or any(cycle_type(p) != sorted(c["cycle_lengths"]) for p in real) or len(real) != class_size(c["n"], c["cycle_lengths"]):
                ck.violation("C20/conjugacy-class", "enumeration of the conjugacy class is wrong", {"case": c, "observed_count": len(real), "expected_count": class_size(c["n"], c["cycle_lengths"])})
        elif "cycle_lengths" in c:
            real = pu.partition_to_permutation(c["cycle_lengths"], flag_random=c.get("flag_random", False))
            ck.case(["replay", c], True)
            if not pu.is_permutation(real) or cycle_type(real) != sorted(c["cycle_lengths"]):
                ck.violation("C20/partition_to_permutation", "result is not a permutation of the requested cycle type", {"case": c, "observed": real})
        ck.finish(rule="replay of one recorded case")
    # ---- exhaustive: all pairs of permutations for n <= 4 (5 in the thorough tier)
    top = 5 if not ck.thorough else 6
    for n in range(1, top + 1):
        perms = [list(p) for p in itertools.permutations(range(n))]
        for p in perms:
            for q in perms:
                x = [rng.randrange(7) for _ in range(n)]
                check_pair(ck, drv, p, q, x)
        ck.count(f"exhaustive-pairs:n={n}", len(perms) ** 2)
    for _ in range(300 if not ck.thorough else 20000):
        n = rng.randint(5, 40)
        check_pair(ck, drv, graphs.rand_perm(rng, n), graphs.rand_perm(rng, n), [rng.randrange(50) for _ in range(n)])
    ck.count("random-pairs")
    # is_permutation on non-permutations
    for _ in range(200):
        n = rng.randint(1, 8)
        p = [rng.randrange(n + 1) for _ in range(n)]
        real = pu.is_permutation(p)
        ck.case(["isperm", p], True)
        if real != (sorted(p) == list(range(n))):
            ck.violation("C20/is_permutation", "is_permutation misjudges a sequence", {"case": {"p": p}, "observed": real})
        if (drv.ask(f"perm.isperm ; {L(p)}") == "1") != real:
            ck.correspondence_break("isPerm: model and implementation differ", {"p": p})
    # transposition
    for n in range(1, 7):
        for i in range(-1, n + 1):
            for j in range(-1, n + 1):
                try:
                    t = pu.transposition(n, i, j)
                except AssertionError:
                    t = None
                valid = 0 <= i < n and 0 <= j < n and i != j
                ck.case(["transposition", n, i, j], valid)
                if valid:
                    want = list(range(n))
                    want[i], want[j] = j, i
                    if t != want:
                        ck.violation("C20/transposition", "transposition is not the swap of i1 and i2", {"case": {"n": n, "i": i, "j": j}, "observed": t})
                elif t is not None:
                    ck.violation("C20/transposition/accepted-invalid", "transposition accepted invalid arguments", {"case": {"n": n, "i": i, "j": j}, "observed": t})
                if i >= 0 and j >= 0:
                    m = drv.ask(f"perm.transposition {n} {i} {j}")
                    if (m == "ERR assert") != (t is None) or (t is not None and m != L(t)):
                        ck.correspondence_break("transposition: model and implementation differ", {"n": n, "i": i, "j": j})
    # ---- cycles: disjoint cycle lists with any offset yield exactly those cycles; invalid lists are rejected
    for _ in range(400 if not ck.thorough else 20000):
        n = rng.randint(1, 12)
        off = rng.choice([0, 0, 1, 1, -2, 5])
        pts = list(range(n))
        rng.shuffle(pts)
        cycles, pos = [], 0
        while pos < n and rng.random() < 0.8:
            k = rng.randint(1, min(4, n - pos))
            cycles.append([v + off for v in pts[pos : pos + k]])
            pos += k
        kind = "valid"
        r = rng.random()
        if r < 0.15 and cycles:
            cycles.append([rng.choice(rng.choice(cycles)), (pts[-1] + off)])  # intersecting
            kind = "intersecting"
        elif r < 0.25:
            cycles.append([n + off + rng.randint(0, 2)])
            kind = "out-of-range"
        try:
            real = pu.permutation_from_cycles(n, cycles, offset=off)
        except (AssertionError, IndexError):
            real = None
        ck.case(["fromcycles", n, off, cycles], kind == "valid" and len(cycles) > 0)
        ck.count("cycles:" + kind)
        case = {"n": n, "offset": off, "cycles": cycles}
        if kind == "valid":
            want = list(range(n))
            for c in cycles:
                for a, b in zip(c, c[1:] + c[:1]):
                    want[a - off] = b - off
            if real != want:
                ck.violation("C20/from_cycles", "permutation_from_cycles does not yield exactly the given cycles", {"case": case, "observed": real, "expected": want})
                continue
        elif kind == "out-of-range" and real is not None:
            ck.violation("C20/from_cycles/accepted-out-of-range", "out-of-range cycle element accepted", {"case": case, "observed": real})
            continue
        elif kind == "intersecting" and real is not None:
            flat = [v for c in cycles for v in c]
            multi = any(len(c) > 1 for c in cycles if any(flat.count(v) > 1 for v in c))
            if multi and not pu.is_permutation(real):
                ck.violation("C20/from_cycles/accepted-intersecting", "intersecting cycles accepted and the result is not a permutation", {"case": case, "observed": real})
                continue
            ck.count("cycles:intersecting-accepted (fixed points / repeated 1-cycles)")
        if min(v - off for c in cycles for v in c) >= 0 if cycles and any(cycles) else True:
            m = drv.ask(f"perm.fromcycles {n} {off} ; " + " ; ".join(L(c) for c in cycles)) if cycles else L(range(n))
            if (m == "ERR assert") != (real is None) or (real is not None and m != L(real)):
                ck.correspondence_break("fromCycles: model and implementation differ", {"case": case, "model": m, "impl": real})
    # ---- conjugacy classes: every permutation of the cycle type exactly once (all partitions of n <= 6; 7 thorough)
    topn = 6 if not ck.thorough else 8
    for n in range(1, topn + 1):
        for lens in partitions(n):
            lens2 = lens[:]
            rng.shuffle(lens2)
            real = pu.permutations_with_cycle_lenghts(n, lens2)
            if rng.random() < 0.5 and real:
                # the caller owns what it was given: scribbling over an earlier answer must not change a later one
                snapshot = [list(p) for p in real]
                for p in real:
                    p.reverse()
                real.reverse()
                lens3 = lens2[:]
                rng.shuffle(lens3)
                real = pu.permutations_with_cycle_lenghts(n, lens3)
                ck.count("conjugacy-classes: asked again after the first answer was overwritten")
                if sorted(map(tuple, real)) != sorted(map(tuple, snapshot)):
                    ck.violation("C20/conjugacy-class/stale", "a second enumeration of the same class differs after the caller modified the first answer in place", {"case": {"n": n, "cycle_lengths": lens2, "again": lens3, "history": "enumerate, reverse every returned list in place, enumerate again"}, "observed_count": len(real)})
                    continue
            ck.case(["conj", n, lens2], n >= 3)
            ck.count("conjugacy-classes")
            tset = {tuple(p) for p in real}
            bad = None
            if len(tset) != len(real):
                bad = "a permutation is enumerated twice"
            elif any(cycle_type(p) != sorted(lens) for p in real):
                bad = "an enumerated permutation has the wrong cycle type"
            elif len(real) != class_size(n, lens):
                bad = f"class has {class_size(n, lens)} elements, enumeration returned {len(real)}"
            if bad:
                ck.violation("C20/conjugacy-class", bad, {"case": {"n": n, "cycle_lengths": lens2}, "observed_count": len(real), "expected_count": class_size(n, lens)})
                continue
            if n <= 7:
                m = drv.ask(f"perm.cyclelens {n} ; {L(lens2)}")
                if m != " | ".join(L(p) for p in real):
                    ck.correspondence_break("permutationsWithCycleLengths: model and implementation differ (content or order)", {"n": n, "lens": lens2})
    # larger n, small classes only (the enumeration order of Python sets changes from 9 elements on)
    for n in (9, 10, 11):
        for lens in partitions(n):
            if class_size(n, lens) > (3000 if not ck.thorough else 60000) or len(lens) - lens.count(1) < 1:
                continue
            lens2 = lens[:]
            rng.shuffle(lens2)
            real = pu.permutations_with_cycle_lenghts(n, lens2)
            ck.case(["conj", n, lens2], True)
            ck.count("conjugacy-classes:n>=9")
            if len({tuple(p) for p in real}) != len(real) or any(cycle_type(p) != sorted(lens) for p in real) or len(real) != class_size(n, lens):
                ck.violation("C20/conjugacy-class", f"S_{n} class {lens}: enumeration returned {len(real)} permutations ({len({tuple(p) for p in real})} distinct), the class has {class_size(n, lens)}", {"case": {"n": n, "cycle_lengths": lens2}, "observed_count": len(real), "expected_count": class_size(n, lens)})
                break
    # ---- several classes in one call, enumerated and sampled mixed (PermutationGroups.conjugacy_classes): the generators
    # come class by class in the order of the dict; an enumerated class is complete, a sampled class has exactly the
    # requested number of permutations, each of that class's cycle type
    from cayleypy import PermutationGroups as PG

    multi_cases = []
    for _ in range(40 if not ck.thorough else 1500):
        n = rng.randint(4, 8)
        parts = [p for p in partitions(n) if len(p) - p.count(1) >= 1]
        keys = rng.sample(parts, min(len(parts), rng.randint(2, 3)))
        classes = {}
        for lens in keys:
            key = [l for l in lens if l > 1] + [1] * rng.randint(0, lens.count(1))
            rng.shuffle(key)
            classes[tuple(key)] = None if (rng.random() < 0.4 and class_size(n, lens) <= 300) else rng.choice([0, 1, 2, 3, 6])
        if all(v == 0 for v in classes.values()):
            continue  # a definition needs at least one generator
        multi_cases.append((n, keys, classes))
    # several ENUMERATED classes of larger symmetric groups in one call (two-digit points: n >= 11), e.g. the classical
    # generating set "all transpositions and all 3-cycles"
    for n in ((10, 11, 12, 13) if not ck.thorough else (10, 11, 12, 13, 14, 16)):
        two = sorted([2] + [1] * (n - 2))
        three = sorted([3] + [1] * (n - 3))
        twotwo = sorted([2, 2] + [1] * (n - 4))
        multi_cases.append((n, [two, three], {(2,): None, (3,): None}))
        multi_cases.append((n, [three, two], {(3,): None, (2,): None}))
        if n <= 12:
            multi_cases.append((n, [two, twotwo], {(2,): None, (2, 2): None}))
    for n, keys, classes in multi_cases:
        case = {"n": n, "classes": [[list(k), v] for k, v in classes.items()]}
        ck.case(["conj-multi", n, case["classes"]], True)
        ck.count("conjugacy_classes with several classes")
        try:
            d = PG.conjugacy_classes(n, classes)
        except (AssertionError, ValueError, KeyError, IndexError) as ex:
            ck.violation("C20/conjugacy-classes/raises", f"conjugacy_classes raised {type(ex).__name__}: {ex}", {"case": case})
            continue
        gens = [list(map(int, g)) for g in d.generators_permutations]
        pos, bad = 0, None
        for (key, cnt), lens in zip(classes.items(), keys):
            k = class_size(n, lens) if cnt is None else cnt
            block = gens[pos : pos + k]
            pos += k
            if len(block) != k:
                bad = f"class {key}: {len(block)} generators instead of {k}"
            elif any(sorted(g) != list(range(n)) or cycle_type(g) != sorted(lens) for g in block):
                bad = f"class {key}: a generator is not a permutation of cycle type {sorted(lens, reverse=True)}"
            elif cnt is None and len({tuple(g) for g in block}) != k:
                bad = f"class {key}: enumerated class lists a permutation twice"
            if bad:
                break
        if not bad and pos != len(gens):
            bad = f"{len(gens)} generators in total, {pos} requested"
        if bad:
            ck.violation("C20/conjugacy-classes/multi", "conjugacy_classes with several classes: " + bad, {"case": case, "cycle_types_observed": [cycle_type(g) for g in gens][:20]})
    # ---- single-sample constructor
    for _ in range(200 if not ck.thorough else 5000):
        lens = [rng.randint(1, 5) for _ in range(rng.randint(1, 5))]
        n = sum(lens)
        flag = rng.random() < 0.6
        rec = {}
        orig = pyrandom.shuffle

        def sh(x):
            orig(x)
            rec["els"] = list(x)

        pu.random.shuffle = sh
        try:
            real = pu.partition_to_permutation(lens, flag_random=flag)
        finally:
            pu.random.shuffle = orig
        els = rec.get("els", list(range(n)))
        ck.case(["partition", lens, flag, els], True)
        ck.count("partition:" + ("random" if flag else "deterministic"))
        if not pu.is_permutation(real) or cycle_type(real) != sorted(lens):
            ck.violation("C20/partition_to_permutation", "result is not a permutation of the requested cycle type", {"case": {"cycle_lengths": lens, "flag_random": flag, "shuffle": els}, "observed": real})
            continue
        m = drv.ask(f"perm.partition ; {L(lens)} ; {L(els)}")
        if m != L(real):
            ck.correspondence_break("partitionToPermutation: model and implementation differ", {"lens": lens, "els": els, "model": m, "impl": real})
        if drv.ask(f"perm.cycletype ; {L(real)}") != L(sorted(lens)):
            ck.correspondence_break("cycleType (model) differs from the plain-Python cycle type", {"p": real})
    ck.finish(
        rule="all pairs of permutations of n <= 4 (5 thorough) exhaustively + random pairs to n = 40; transposition over all argument triples n <= 6; disjoint / intersecting / out-of-range cycle lists with offsets; all integer partitions of n <= 6 (8 thorough) as cycle types (content, order, class-size formula); single-sample constructor with the shuffle recorded",
        exhaustive=False,
    )


if __name__ == "__main__":
    from cv.core import run_main

    run_main(main)
