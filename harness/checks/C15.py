"""C15 — every library graph family implements the generators its documentation describes."""

import itertools
import json
import math
import os
import subprocess
import sys
import time

sys.path.insert(0, os.path.join(os.path.dirname(__file__), ".."))

import numpy as np  # noqa: E402

from cv import graphs  # noqa: E402
from cv.core import VERIF, Check  # noqa: E402
from cayleypy import CayleyGraph, MatrixGroups, PermutationGroups, create_graph, prepare_graph  # noqa: E402

# theorems `regenerated constructor ∘ create = closed-form specification` (translator harness/extract/pylean.py)
GEN_MODULES = {
    "C15g2": [
        "Cv.C15g2.full_reversals_gen",
        "Cv.C15g2.full_reversals_gen_neg",
        "Cv.C15g2.all_transpositions_gen",
        "Cv.C15g2.all_transpositions_gen_neg",
        "Cv.C15g2.signed_reversals_gen",
        "Cv.C15g2.signed_reversals_gen_neg",
        "Cv.C15g2.transposons_gen",
        "Cv.C15g2.transposons_gen_neg",
        "Cv.C15g2.block_interchange_gen",
        "Cv.C15g2.block_interchange_gen_neg",
    ],
    "C15g3": [
        "Cv.C15g3.transposition_gen",
        "Cv.C15g3.transposition_gen_none",
        "Cv.C15g3.lx_gen",
        "Cv.C15g3.lx_gen_neg",
        "Cv.C15g3.lrx_gen",
        "Cv.C15g3.lrx_gen_neg",
        "Cv.C15g3.lrx_gen_neg_k",
        "Cv.C15g3.pancake_gen",
        "Cv.C15g3.pancake_gen_neg",
        "Cv.C15g3.create_coxeter_generators_gen",
        "Cv.C15g3.coxeter_gen",
        "Cv.C15g3.coxeter_gen_neg",
        "Cv.C15g3.cyclic_coxeter_gen",
        "Cv.C15g3.cyclic_coxeter_gen_neg",
        "Cv.C15g3.stars_gen",
        "Cv.C15g3.stars_gen_neg",
        "Cv.C15g3.top_spin_gen",
        "Cv.C15g3.top_spin_gen_neg",
        "Cv.C15g3.larx_gen",
        "Cv.C15g3.larx_gen_neg",
        "Cv.C15g3.generalized_stars_gen",
        "Cv.C15g3.generalized_stars_gen_neg",
        "Cv.C15g3.burnt_pancake_gen",
        "Cv.C15g3.burnt_pancake_gen_neg",
        "Cv.C15g3.cubic_pancake_pancake_generator_gen",
        "Cv.C15g3.cubic_pancake_gen",
        "Cv.C15g3.cubic_pancake_gen_neg",
    ],
    "C15g4": [
        "Cv.C15g4.prefix_cycles_gen",
        "Cv.C15g4.prefix_cycles_gen_neg",
        "Cv.C15g4.consecutive_k_cycles_gen",
        "Cv.C15g4.consecutive_k_cycles_gen_neg",
        "Cv.C15g4.down_cycles_gen",
        "Cv.C15g4.down_cycles_gen_neg",
        "Cv.C15g4.three_cycles_01i_gen",
        "Cv.C15g4.three_cycles_01i_gen_neg",
        "Cv.C15g4.wrapped_k_cycles_gen",
        "Cv.C15g4.wrapped_k_cycles_gen_neg",
        "Cv.C15g4.lsl_cycles_gen",
        "Cv.C15g4.lsl_cycles_gen_neg",
        "Cv.C15g4.permutation_from_cycles_cycleFn",
        "Cv.C15g4.permutation_from_cycles_nat",
    ],
    "C15g6": [
        "Cv.C15g6.three_cycles_0ij_gen",
        "Cv.C15g6.three_cycles_0ij_gen_neg_bind",
        "Cv.C15g6.three_cycles_gen",
        "Cv.C15g6.three_cycles_gen_neg",
        "Cv.C15g6.increasing_k_cycles_gen",
        "Cv.C15g6.increasing_k_cycles_gen_neg",
        "Cv.C15g6.derangements_gen",
        "Cv.C15g6.derangements_gen_neg",
        "Cv.C15g6.permutations2_pairsNe1",
        "Cv.C15g6.permutations3_triplesMinFirst",
        "Cv.C15g6.combinations_range",
        "Cv.C15g6.permutations_allPerms",
    ],
    "C15g9": [
        "Cv.C15g9.transfer",
        "Cv.C15g9.nonvac",
        "Cv.C15g9.all_cycles_gen",
        "Cv.C15g9.all_cycles_gen_neg",
        "Cv.C15g9.all_cycles_gen_raw",
        "Cv.C15g9.all_cycles_write_loop",
        "Cv.C15g9.all_cycles_source_valid",
        "Cv.C15g9.all_cycles_source_structure",
        "Cv.C15g9.all_cycles_source_defined_iff",
        "Cv.C15g9.all_cycles_source_inverse_closed",
        "Cv.C15g9.pancake_source_valid",
        "Cv.C15g9.pancake_source_count",
        "Cv.C15g9.pancake_source_inverse_closed",
        "Cv.C15g9.lrx_source_valid",
        "Cv.C15g9.lrx_source_count",
        "Cv.C15g9.lrx_source_inverse_closed",
        "Cv.C15g9.lx_source_valid",
        "Cv.C15g9.lx_source_count",
        "Cv.C15g9.lx_source_inverse_closed",
        "Cv.C15g9.coxeter_source_valid",
        "Cv.C15g9.coxeter_source_count",
        "Cv.C15g9.coxeter_source_inverse_closed",
        "Cv.C15g9.all_transpositions_source_valid",
        "Cv.C15g9.all_transpositions_source_count",
        "Cv.C15g9.all_transpositions_source_inverse_closed",
        "Cv.C15g9.full_reversals_source_valid",
        "Cv.C15g9.full_reversals_source_count",
        "Cv.C15g9.full_reversals_source_inverse_closed",
        "Cv.C15g9.top_spin_source_valid",
        "Cv.C15g9.top_spin_source_count",
        "Cv.C15g9.top_spin_source_inverse_closed",
        "Cv.C15g9.stars_source_valid",
        "Cv.C15g9.stars_source_count",
        "Cv.C15g9.stars_source_inverse_closed",
        "Cv.C15g9.burnt_pancake_source_valid",
        "Cv.C15g9.burnt_pancake_source_count",
        "Cv.C15g9.burnt_pancake_source_inverse_closed",
        "Cv.C15g9.cyclic_coxeter_source_valid",
        "Cv.C15g9.cyclic_coxeter_source_count",
        "Cv.C15g9.cyclic_coxeter_source_inverse_closed",
        "Cv.C15g9.larx_source_valid",
        "Cv.C15g9.larx_source_count",
        "Cv.C15g9.larx_source_inverse_closed",
        "Cv.C15g9.generalized_stars_source_valid",
        "Cv.C15g9.generalized_stars_source_count",
        "Cv.C15g9.generalized_stars_source_inverse_closed",
        "Cv.C15g9.cubic_pancake_source_valid",
        "Cv.C15g9.cubic_pancake_source_count",
        "Cv.C15g9.cubic_pancake_source_inverse_closed",
        "Cv.C15g9.signed_reversals_source_valid",
        "Cv.C15g9.signed_reversals_source_count",
        "Cv.C15g9.signed_reversals_source_inverse_closed",
        "Cv.C15g9.transposons_source_valid",
        "Cv.C15g9.transposons_source_count",
        "Cv.C15g9.transposons_source_inverse_closed",
        "Cv.C15g9.block_interchange_source_valid",
        "Cv.C15g9.block_interchange_source_count",
        "Cv.C15g9.block_interchange_source_inverse_closed",
        "Cv.C15g9.prefix_cycles_source_valid",
        "Cv.C15g9.prefix_cycles_source_count",
        "Cv.C15g9.prefix_cycles_source_inverse_closed",
        "Cv.C15g9.consecutive_k_cycles_source_valid",
        "Cv.C15g9.consecutive_k_cycles_source_count",
        "Cv.C15g9.consecutive_k_cycles_source_inverse_closed",
        "Cv.C15g9.down_cycles_source_valid",
        "Cv.C15g9.down_cycles_source_count",
        "Cv.C15g9.down_cycles_source_inverse_closed",
        "Cv.C15g9.three_cycles_01i_source_valid",
        "Cv.C15g9.three_cycles_01i_source_count",
        "Cv.C15g9.three_cycles_01i_source_inverse_closed",
        "Cv.C15g9.wrapped_k_cycles_source_valid",
        "Cv.C15g9.wrapped_k_cycles_source_count",
        "Cv.C15g9.wrapped_k_cycles_source_inverse_closed",
        "Cv.C15g9.lsl_cycles_source_valid",
        "Cv.C15g9.lsl_cycles_source_count",
        "Cv.C15g9.lsl_cycles_source_inverse_closed",
        "Cv.C15g9.rapaport_m1_source_valid",
        "Cv.C15g9.rapaport_m1_source_count",
        "Cv.C15g9.rapaport_m1_source_inverse_closed",
        "Cv.C15g9.rapaport_m2_source_valid",
        "Cv.C15g9.rapaport_m2_source_count",
        "Cv.C15g9.rapaport_m2_source_inverse_closed",
        "Cv.C15g9.sheveleva2_source_valid",
        "Cv.C15g9.sheveleva2_source_count",
        "Cv.C15g9.sheveleva2_source_inverse_closed",
        "Cv.C15g9.koltsov3_source_valid",
        "Cv.C15g9.koltsov3_source_count",
        "Cv.C15g9.koltsov3_source_inverse_closed",
        "Cv.C15g9.three_cycles_0ij_source_valid",
        "Cv.C15g9.three_cycles_0ij_source_count",
        "Cv.C15g9.three_cycles_0ij_source_inverse_closed",
        "Cv.C15g9.three_cycles_source_valid",
        "Cv.C15g9.three_cycles_source_count",
        "Cv.C15g9.three_cycles_source_inverse_closed",
        "Cv.C15g9.increasing_k_cycles_source_valid",
        "Cv.C15g9.increasing_k_cycles_source_count",
        "Cv.C15g9.increasing_k_cycles_source_inverse_closed",
        "Cv.C15g9.derangements_source_valid",
        "Cv.C15g9.derangements_source_inverse_closed",
    ],
    "C15g5": [
        "Cv.C15g5.rapaport_m2_gen",
        "Cv.C15g5.rapaport_m2_gen_neg",
        "Cv.C15g5.koltsov3_gen",
        "Cv.C15g5.rapaport_m1_gen",
        "Cv.C15g5.sheveleva2_gen",
        "Cv.C15g5.sheveleva2_gen_neg",
    ],
}

THEOREMS = [
    "Cv.C15.index_lists_sorted",
    "Cv.C15.index_lists_nodup",
    "Cv.C15.pancake_valid",
    "Cv.C15.pancake_count",
    "Cv.C15.pancake_structure",
    "Cv.C15.pancake_inverse_closed",
    "Cv.C15.pancake_defined_iff",
    "Cv.C15.lrx_valid",
    "Cv.C15.lrx_count",
    "Cv.C15.lrx_structure",
    "Cv.C15.lrx_name",
    "Cv.C15.lrx_inverse_closed",
    "Cv.C15.lrx_defined_iff",
    "Cv.C15.lx_valid",
    "Cv.C15.lx_count",
    "Cv.C15.lx_structure",
    "Cv.C15.lx_name",
    "Cv.C15.lx_inverse_closed",
    "Cv.C15.lx_defined_iff",
    "Cv.C15.top_spin_valid",
    "Cv.C15.top_spin_count",
    "Cv.C15.top_spin_structure",
    "Cv.C15.top_spin_inverse_closed",
    "Cv.C15.top_spin_defined_iff",
    "Cv.C15.coxeter_valid",
    "Cv.C15.coxeter_count",
    "Cv.C15.coxeter_structure",
    "Cv.C15.coxeter_inverse_closed",
    "Cv.C15.coxeter_defined_iff",
    "Cv.C15.cyclic_coxeter_valid",
    "Cv.C15.cyclic_coxeter_count",
    "Cv.C15.cyclic_coxeter_structure",
    "Cv.C15.cyclic_coxeter_inverse_closed",
    "Cv.C15.cyclic_coxeter_defined_iff",
    "Cv.C15.stars_valid",
    "Cv.C15.stars_count",
    "Cv.C15.stars_structure",
    "Cv.C15.stars_inverse_closed",
    "Cv.C15.stars_defined_iff",
    "Cv.C15.generalized_stars_valid",
    "Cv.C15.generalized_stars_count",
    "Cv.C15.generalized_stars_structure",
    "Cv.C15.generalized_stars_inverse_closed",
    "Cv.C15.generalized_stars_defined_iff",
    "Cv.C15.all_transpositions_valid",
    "Cv.C15.all_transpositions_count",
    "Cv.C15.all_transpositions_structure",
    "Cv.C15.all_transpositions_inverse_closed",
    "Cv.C15.all_transpositions_defined_iff",
    "Cv.C15.full_reversals_valid",
    "Cv.C15.full_reversals_count",
    "Cv.C15.full_reversals_structure",
    "Cv.C15.full_reversals_inverse_closed",
    "Cv.C15.full_reversals_defined_iff",
    "Cv.C15.signed_reversals_valid",
    "Cv.C15.signed_reversals_count",
    "Cv.C15.signed_reversals_structure",
    "Cv.C15.signed_reversals_inverse_closed",
    "Cv.C15.signed_reversals_defined_iff",
    "Cv.C15.burnt_pancake_valid",
    "Cv.C15.burnt_pancake_count",
    "Cv.C15.burnt_pancake_structure",
    "Cv.C15.burnt_pancake_inverse_closed",
    "Cv.C15.burnt_pancake_defined_iff",
    "Cv.C15.transposons_valid",
    "Cv.C15.transposons_structure",
    "Cv.C15.transposons_inverse_closed",
    "Cv.C15.transposons_defined_iff",
    "Cv.C15.block_interchange_valid",
    "Cv.C15.block_interchange_structure",
    "Cv.C15.block_interchange_inverse_closed",
    "Cv.C15.block_interchange_defined_iff",
    "Cv.C15.cubic_pancake_valid",
    "Cv.C15.cubic_pancake_count",
    "Cv.C15.cubic_pancake_structure",
    "Cv.C15.cubic_pancake_inverse_closed",
    "Cv.C15.cubic_pancake_defined_iff",
    "Cv.C15.consecutive_k_cycles_valid",
    "Cv.C15.consecutive_k_cycles_count",
    "Cv.C15.consecutive_k_cycles_structure",
    "Cv.C15.consecutive_k_cycles_inverse_closed",
    "Cv.C15.consecutive_k_cycles_defined_iff",
    "Cv.C15.down_cycles_valid",
    "Cv.C15.down_cycles_count",
    "Cv.C15.down_cycles_structure",
    "Cv.C15.down_cycles_inverse_closed",
    "Cv.C15.down_cycles_defined_iff",
    "Cv.C15.prefix_cycles_valid",
    "Cv.C15.prefix_cycles_count",
    "Cv.C15.prefix_cycles_structure",
    "Cv.C15.prefix_cycles_inverse_closed",
    "Cv.C15.prefix_cycles_defined_iff",
    "Cv.C15.wrapped_k_cycles_valid",
    "Cv.C15.wrapped_k_cycles_count",
    "Cv.C15.wrapped_k_cycles_structure",
    "Cv.C15.wrapped_k_cycles_inverse_closed",
    "Cv.C15.wrapped_k_cycles_defined_iff",
    "Cv.C15.lsl_cycles_valid",
    "Cv.C15.lsl_cycles_count",
    "Cv.C15.lsl_cycles_structure",
    "Cv.C15.lsl_cycles_inverse_closed",
    "Cv.C15.lsl_cycles_defined_iff",
    "Cv.C15.rapaport_m2_valid",
    "Cv.C15.rapaport_m2_count",
    "Cv.C15.rapaport_m2_structure",
    "Cv.C15.rapaport_m2_inverse_closed",
    "Cv.C15.rapaport_m2_defined_iff",
    "Cv.C15.rapaport_m1_valid",
    "Cv.C15.rapaport_m1_count",
    "Cv.C15.rapaport_m1_structure",
    "Cv.C15.rapaport_m1_inverse_closed",
    "Cv.C15.rapaport_m1_defined_iff",
    "Cv.C15.larx_valid",
    "Cv.C15.larx_count",
    "Cv.C15.larx_structure",
    "Cv.C15.larx_inverse_closed",
    "Cv.C15.larx_defined_iff",
    "Cv.C15.three_cycles_valid",
    "Cv.C15.three_cycles_structure",
    "Cv.C15.three_cycles_inverse_closed",
    "Cv.C15.three_cycles_defined_iff",
    "Cv.C15.three_cycles_0ij_valid",
    "Cv.C15.three_cycles_0ij_structure",
    "Cv.C15.three_cycles_0ij_inverse_closed",
    "Cv.C15.three_cycles_0ij_defined_iff",
    "Cv.C15.three_cycles_01i_valid",
    "Cv.C15.three_cycles_01i_count",
    "Cv.C15.three_cycles_01i_structure",
    "Cv.C15.three_cycles_01i_inverse_closed",
    "Cv.C15.three_cycles_01i_defined_iff",
    "Cv.C15.koltsov3_valid",
    "Cv.C15.koltsov3_count",
    "Cv.C15.koltsov3_structure",
    "Cv.C15.koltsov3_inverse_closed",
    "Cv.C15.koltsov3_defined_iff",
    "Cv.C15.sheveleva2_valid",
    "Cv.C15.sheveleva2_count",
    "Cv.C15.sheveleva2_structure",
    "Cv.C15.sheveleva2_inverse_closed",
    "Cv.C15.sheveleva2_defined_iff",
    "Cv.C15.increasing_k_cycles_valid",
    "Cv.C15.increasing_k_cycles_count",
    "Cv.C15.increasing_k_cycles_structure",
    "Cv.C15.increasing_k_cycles_defined_iff",
    "Cv.C15.increasing_k_cycles_inverse_closed",
    "Cv.C15.derangements_valid",
    "Cv.C15.derangements_structure",
    "Cv.C15.derangements_inverse_closed",
    "Cv.C15.derangements_defined_iff",
    "Cv.C15.involutive_derangements_valid",
    "Cv.C15.involutive_derangements_structure",
    "Cv.C15.involutive_derangements_inverse_closed",
    "Cv.C15.involutive_derangements_defined_iff",
    "Cv.C15.all_cycles_valid",
    "Cv.C15.all_cycles_structure",
    "Cv.C15.all_cycles_defined_iff",
    "Cv.C15.all_cycles_inverse_closed",
    "Cv.C15.permFamilyP_eq",
    "Cv.C15.conjugacy_classes_valid",
    "Cv.C15.three_cycles_0ij_count",
    "Cv.C15.three_cycles_count",
    "Cv.C15.transposons_count",
    "Cv.C15.block_interchange_count",
    "Cv.C15.heisenberg_defined_iff",
    "Cv.C15.heisenberg_count",
    "Cv.C15.heisenberg_valid",
    "Cv.C15.heisenberg_structure",
    "Cv.C15.heisenberg_inverses",
    "Cv.C15.sl_fund_roots_defined_iff",
    "Cv.C15.sl_fund_roots_count",
    "Cv.C15.sl_fund_roots_valid",
    "Cv.C15.sl_fund_roots_structure",
    "Cv.C15.sl_fund_roots_inverses",
    "Cv.C15.sl_root_weyl_defined_iff",
    "Cv.C15.sl_root_weyl_count",
    "Cv.C15.sl_root_weyl_valid",
    "Cv.C15.sl_root_weyl_structure",
    "Cv.C15.sl_root_weyl_inverses",
    "Cv.C15.lookup_lx",
    "Cv.C15.lookup_lrx",
    "Cv.C15.lookup_top_spin",
    "Cv.C15.lookup_all_transpositions",
    "Cv.C15.lookup_transposons",
    "Cv.C15.lookup_block_interchange",
    "Cv.C15.lookup_full_reversals",
    "Cv.C15.lookup_coxeter",
    "Cv.C15.lookup_pancake",
    "Cv.C15.lookup_all_cycles",
    "Cv.C15.lookup_lsl_cycles",
    "Cv.C15.lookup_larx",
    "Cv.C15.lookup_01i",
    "Cv.C15.lookup_increasing_k_cycles",
    "Cv.C15.lookup_consecutive_k_cycles",
    "Cv.C15.lookup_k_cycles_missing_k",
    "Cv.C15.lookup_down_cycles",
    "Cv.C15.lookup_prefix_cycles",
    "Cv.C15.lookup_lx_prefix",
    "Cv.C15.lookup_lrx_prefix",
    "Cv.C15.lookup_lx_N",
    "Cv.C15.lookup_lrx_N",
    "Cv.C15.lookup_constructor",
    "Cv.C15.lookup_roundtrip_lx",
    "Cv.C15.lookup_roundtrip_lrx",
    "Cv.C15.lookup_own_name_lrx_k",
    "Cv.C15.lookup_roundtrip",
    "Cv.C15.lookup_accepts_iff",
]
PG, MG = PermutationGroups, MatrixGroups


# ---------------------------------------------------------------- closed-form specifications (from the documentation)
def ident(n):
    return list(range(n))


def transp(n, i, j):
    p = ident(n)
    p[i], p[j] = j, i
    return p


def cyc(n, c):
    """one-line notation of the cycle (c0 c1 ... ): c_i -> c_{i+1}, under the convention perm[c_i] = c_{i+1}"""
    p = ident(n)
    for a, b in zip(c, c[1:] + c[:1]):
        p[a] = b
    return p


def prefix_rev(n, k):
    return [k - 1 - i if i < k else i for i in range(n)]


def sub_rev(n, i, j):
    return [i + j - t if i <= t <= j else t for t in range(n)]


def spec_all_transpositions(n):
    pairs = [(i, j) for i in range(n) for j in range(i + 1, n)]
    return {"gens": [transp(n, i, j) for i, j in pairs], "names": [f"({i},{j})" for i, j in pairs], "count": n * (n - 1) // 2, "ic": True, "order": math.factorial(n), "size": n}


def spec_full_reversals(n):
    pairs = [(i, j) for i in range(n) for j in range(i + 1, n)]
    return {"gens": [sub_rev(n, i, j) for i, j in pairs], "names": [f"R[{i}..{j}]" for i, j in pairs], "count": n * (n - 1) // 2, "ic": True, "order": math.factorial(n), "size": n}


def spec_transposons(n):
    trip = [(i, j, k) for i in range(n) for j in range(i + 1, n) for k in range(j, n)]
    # substring [i, j) moved behind position k:  0..i-1 | j..k | i..j-1 | k+1..
    gens = [ident(i) + list(range(j, k + 1)) + list(range(i, j)) + list(range(k + 1, n)) for i, j, k in trip]
    return {"gens": gens, "names": [f"T[{i}..{j-1},{k}]" for i, j, k in trip], "ic": True, "order": math.factorial(n), "size": n}


def spec_block_interchange(n):
    quad = [(i, j, k, l) for i in range(n) for j in range(i + 1, n) for k in range(j, n) for l in range(k + 1, n + 1)]
    gens = [ident(i) + list(range(k, l)) + list(range(j, k)) + list(range(i, j)) + list(range(l, n)) for i, j, k, l in quad]
    return {"gens": gens, "names": [f"I[{i}..{j-1},{k}..{l-1}]" for i, j, k, l in quad], "ic": True, "order": math.factorial(n), "size": n}


def spec_signed_reversals(n):
    pairs = [(i, j) for i in range(n) for j in range(i, n)]
    gens = []
    for i, j in pairs:
        p = ident(2 * n)
        for t in range(i, j + 1):  # element t goes to position i+j-t and is flipped: bottom side <-> top side
            p[t] = n + (i + j - t)
            p[n + t] = i + j - t
        gens.append(p)
    return {"gens": gens, "names": [f"R[{i}..{j}]" for i, j in pairs], "count": n * (n + 1) // 2, "ic": True, "order": 2**n * math.factorial(n), "size": 2 * n}


def spec_lrx(n, k=1):
    name = f"lrx-{n}" + (f"(k={k})" if k != 1 else "")
    return {"gens": [[(i + 1) % n for i in range(n)], [(i - 1) % n for i in range(n)], transp(n, 0, k)], "names": ["L", "R", "X"], "count": 3, "ic": True, "order": math.factorial(n) if k == 1 else None, "name": name, "size": n}


def spec_lx(n):
    return {"gens": [[(i + 1) % n for i in range(n)], transp(n, 0, 1)], "names": ["L", "X"], "count": 2, "ic": False, "order": math.factorial(n), "name": f"lx-{n}", "size": n}


def spec_top_spin(n, k=4):
    return {"gens": [[(i + 1) % n for i in range(n)], [(i - 1) % n for i in range(n)], prefix_rev(n, k)], "count": 3, "ic": True, "name": f"top_spin-{n}-{k}", "size": n}


def spec_coxeter(n):
    return {"gens": [transp(n, i, i + 1) for i in range(n - 1)], "names": [f"({i},{i+1})" for i in range(n - 1)], "count": n - 1, "ic": True, "order": math.factorial(n), "name": f"coxeter-{n}", "size": n}


def spec_cyclic_coxeter(n):
    s = spec_coxeter(n)
    return {"gens": s["gens"] + [transp(n, 0, n - 1)], "names": s["names"] + [f"(0,{n-1})"], "count": n, "ic": True, "order": math.factorial(n), "name": f"cyclic_coxeter-{n}", "size": n}


def spec_pancake(n):
    return {"gens": [prefix_rev(n, k) for k in range(2, n + 1)], "names": [f"R{k-1}" for k in range(2, n + 1)], "count": n - 1, "ic": True, "order": math.factorial(n), "name": f"pancake-{n}", "size": n}


def spec_cubic_pancake(n, subset):
    ks = {1: (n, n - 1, 2), 2: (n, n - 1, 3), 3: (n, n - 1, n - 2), 4: (n, n - 1, n - 3), 5: (n, n - 2, 2), 6: (n, n - 2, 3), 7: (n, n - 2, n - 3)}[subset]
    return {"gens": [prefix_rev(n, k) for k in ks], "names": [f"R{k}" for k in ks], "count": 3, "ic": True, "name": f"cubic_pancake-{n}-{subset}", "size": n}


def spec_burnt_pancake(n):
    gens = []
    for k in range(1, n + 1):  # flip the top k pancakes: order reversed, each turned over
        p = ident(2 * n)
        for t in range(k):
            p[t] = n + (k - 1 - t)
            p[n + t] = k - 1 - t
        gens.append(p)
    return {"gens": gens, "names": [f"R{k}" for k in range(1, n + 1)], "count": n, "ic": True, "order": 2**n * math.factorial(n), "name": f"burnt_pancake-{n}", "size": 2 * n}


def spec_three_cycles(n):
    tr = [(a, b, c) for a, b, c in itertools.permutations(range(n), 3) if a < b and a < c]
    return {"gens": [cyc(n, list(t)) for t in tr], "names": [f"({a} {b} {c})" for a, b, c in tr], "count": n * (n - 1) * (n - 2) // 3, "ic": True, "order": math.factorial(n) // 2, "name": f"three_cycles-{n}", "size": n}


def spec_three_cycles_0ij(n):
    pr = list(itertools.permutations(range(1, n), 2))
    return {"gens": [cyc(n, [0, i, j]) for i, j in pr], "names": [f"(0 {i} {j})" for i, j in pr], "count": (n - 1) * (n - 2), "ic": True, "order": math.factorial(n) // 2, "name": f"three_cycles_0ij-{n}", "size": n}


def spec_three_cycles_01i(n, add_inverses=True):
    gens, names = [], []
    for i in range(2, n):
        gens.append(cyc(n, [0, 1, i]))
        names.append(f"(0 1 {i})")
        if add_inverses:
            gens.append(cyc(n, [1, 0, i]))
            names.append(f"(1 0 {i})")
    return {"gens": gens, "names": names, "count": (n - 2) * (2 if add_inverses else 1), "ic": add_inverses or None, "order": math.factorial(n) // 2, "name": f"three_cycles_01i-{n}" + ("-ic" if add_inverses else ""), "size": n}


def spec_derangements(n):
    allp = list(itertools.permutations(range(n)))
    sel = [(idx, list(p)) for idx, p in enumerate(allp) if all(p[i] != i for i in range(n))]
    return {"gens": [p for _, p in sel], "names": [f"D{idx}" for idx, _ in sel], "ic": True, "name": f"derangements-{n}", "size": n}


def spec_involutive_derangements(n):
    def matchings(el):
        if not el:
            return [[]]
        out = []
        for i in range(1, len(el)):
            for m in matchings(el[1:i] + el[i + 1 :]):
                out.append([(el[0], el[i])] + m)
        return out

    gens = []
    for m in matchings(list(range(n))):
        p = ident(n)
        for a, b in m:
            p[a], p[b] = b, a
        gens.append(p)
    cnt = math.factorial(n) // (2 ** (n // 2) * math.factorial(n // 2))
    return {"gens": gens, "names": [f"ID{i+1}" for i in range(len(gens))], "count": cnt, "ic": True, "name": f"involutive-derangements-{n}", "size": n}


def spec_stars(n):
    return {"gens": [transp(n, 0, i) for i in range(1, n)], "names": [f"S{i}" for i in range(1, n)], "count": n - 1, "ic": True, "order": math.factorial(n), "name": f"stars-{n}", "size": n}


def spec_generalized_stars(n, k=1):
    pr = [(i, j) for i in range(k) for j in range(k, n)]
    return {"gens": [transp(n, i, j) for i, j in pr], "names": [f"S{i}-{j}" for i, j in pr], "count": k * (n - k), "ic": True, "order": math.factorial(n), "name": f"generalized-stars-{n}-{k}", "size": n}


def spec_rapaport_m2(n):
    g2 = ident(n)
    for i in range(0, n - 1, 2):
        g2[i], g2[i + 1] = i + 1, i
    g3 = ident(n)
    for i in range(1, n - 1, 2):
        g3[i], g3[i + 1] = i + 1, i
    return {"gens": [transp(n, 0, 1), g2, g3], "names": ["(0,1)", "EvenDisjTrans", "OddDisjTrans"], "count": 3, "ic": True, "order": math.factorial(n), "name": f"rapaport_m2-{n}", "size": n}


def spec_rapaport_m1(n):
    gens, names = [], []
    for t in range(1, n // 2 + 1):
        p = ident(n)
        for q in range(t):
            p[2 * q], p[2 * q + 1] = 2 * q + 1, 2 * q
        gens.append(p)
        names.append(f"M1_0_{t}")
    for t in range(1, (n - 1) // 2 + 1):
        p = ident(n)
        for q in range(t):
            p[2 * q + 1], p[2 * q + 2] = 2 * q + 2, 2 * q + 1
        gens.append(p)
        names.append(f"M1_1_{t}")
    return {"gens": gens, "names": names, "ic": True, "order": math.factorial(n), "name": f"rapaport_m1-{n}", "size": n}


def spec_all_cycles(n):
    gens = []
    for k in range(2, n + 1):
        for sub in itertools.combinations(range(n), k):
            for rest in itertools.permutations(sub[1:]):
                gens.append(cyc(n, [sub[0]] + list(rest)))
    cnt = sum(math.comb(n, k) * math.factorial(k - 1) for k in range(2, n + 1))
    return {"gens": gens, "names": [f"cycle_{i+1}" for i in range(len(gens))], "count": cnt, "ic": True, "order": math.factorial(n), "name": f"all_cycles-{n}", "size": n}


def spec_lsl_cycles(n, add_inverses=True):
    L = cyc(n, list(range(n)))
    S = cyc(n, list(range(1, n)))
    gens, names = [L, S], ["L", "S"]
    if add_inverses:
        gens += [graphs.inv_perm(L), graphs.inv_perm(S)]
        names += ["L_inv", "S_inv"]
    return {"gens": gens, "names": names, "count": 4 if add_inverses else 2, "ic": True if add_inverses else None, "name": f"lsl_cycles-{n}", "size": n}


def spec_wrapped_k_cycles(n, k):
    cs = [[(s + j) % n for j in range(k)] for s in range(n)]
    return {"gens": [cyc(n, c) for c in cs], "names": ["(" + " ".join(map(str, c)) + ")" for c in cs], "count": n, "name": f"wrapped_k_cycles-{n}-{k}", "size": n}


def spec_consecutive_k_cycles(n, k):
    cs = [list(range(i, i + k)) for i in range(n - k + 1)]
    return {"gens": [cyc(n, c) for c in cs], "names": ["(" + ",".join(map(str, c)) + ")" for c in cs], "count": n - k + 1, "name": f"consecutive_k_cycles-{n}-{k}", "size": n}


def spec_increasing_k_cycles(n, k):
    cs = [list(c) for c in itertools.combinations(range(n), k)]
    return {"gens": [cyc(n, c) for c in cs], "names": ["(" + ",".join(map(str, c)) + ")" for c in cs], "count": math.comb(n, k), "name": f"increasing_k_cycles-{n}-{k}", "size": n}


def spec_down_cycles(n):
    cs = [list(range(i, j + 1)) for i in range(n) for j in range(i + 1, n)]
    return {"gens": [cyc(n, c) for c in cs], "names": ["(" + ",".join(map(str, c)) + ")" for c in cs], "count": n * (n - 1) // 2, "name": f"down_cycles-{n}", "size": n}


def spec_prefix_cycles(n):
    cs = [list(range(j)) for j in range(2, n + 1)]
    return {"gens": [cyc(n, c) for c in cs], "names": ["(" + ",".join(map(str, c)) + ")" for c in cs], "count": n - 1, "name": f"prefix_cycles-{n}", "size": n}


def spec_larx(n):
    p1 = transp(n, 0, 1)
    p2 = [0] + list(range(2, n)) + [1]
    return {"gens": [p1, p2], "names": ["(" + " ".join(map(str, p)) + ")" for p in (p1, p2)], "count": 2, "name": f"larx-{n}", "size": n}


def spec_koltsov3(n, perm_type=2, k=1, d=1):
    I = ident(n)
    for i in range(0, n - 1, 2):
        I[i], I[i + 1] = i + 1, i
    K = ident(n)
    for i in range(1, n - 1, 2):
        K[i], K[i + 1] = i + 1, i
    S = transp(n, k, k + d) if perm_type == 1 else cyc(n, [k, k + 3]) if False else None
    if perm_type == 2:
        S = ident(n)
        S[k], S[k + 3] = k + 3, k
        S[k + 1], S[k + 2] = k + 2, k + 1
    return {"gens": [I, K, S], "names": ["I", "K", "S"], "count": 3, "ic": True, "name": f"koltsov3-n{n}-k{k}", "size": n}


# family -> (constructor, spec, parameter tuples generator(capN))
def rng_n(lo, hi):
    return [(n,) for n in range(lo, hi + 1)]


FAMILIES = {
    "all_transpositions": (PG.all_transpositions, spec_all_transpositions, lambda c: rng_n(2, c)),
    "transposons": (PG.transposons, spec_transposons, lambda c: rng_n(2, min(c, 8))),
    "block_interchange": (PG.block_interchange, spec_block_interchange, lambda c: rng_n(2, min(c, 7))),
    "full_reversals": (PG.full_reversals, spec_full_reversals, lambda c: rng_n(2, c)),
    "signed_reversals": (PG.signed_reversals, spec_signed_reversals, lambda c: rng_n(1, min(c, 8))),
    "lrx": (PG.lrx, spec_lrx, lambda c: [(n, k) for n in range(3, c + 1) for k in range(1, n)]),
    "lx": (PG.lx, spec_lx, lambda c: rng_n(3, c)),
    "top_spin": (PG.top_spin, spec_top_spin, lambda c: [(n, k) for n in range(2, c + 1) for k in range(2, n + 1)]),
    "coxeter": (PG.coxeter, spec_coxeter, lambda c: rng_n(2, c)),
    "cyclic_coxeter": (PG.cyclic_coxeter, spec_cyclic_coxeter, lambda c: rng_n(2, c)),
    "pancake": (PG.pancake, spec_pancake, lambda c: rng_n(2, c)),
    "cubic_pancake": (PG.cubic_pancake, spec_cubic_pancake, lambda c: [(n, s) for n in range(4, c + 1) for s in range(1, 8)]),
    "burnt_pancake": (PG.burnt_pancake, spec_burnt_pancake, lambda c: rng_n(1, min(c, 8))),
    "three_cycles": (PG.three_cycles, spec_three_cycles, lambda c: rng_n(3, min(c, 8))),
    "three_cycles_0ij": (PG.three_cycles_0ij, spec_three_cycles_0ij, lambda c: rng_n(3, min(c, 9))),
    "three_cycles_01i": (PG.three_cycles_01i, spec_three_cycles_01i, lambda c: [(n, f) for n in range(3, c + 1) for f in (True, False)]),
    "derangements": (PG.derangements, spec_derangements, lambda c: rng_n(2, min(c, 6))),
    "involutive_derangements": (PG.involutive_derangements, spec_involutive_derangements, lambda c: [(n,) for n in range(2, min(c, 8) + 1, 2)]),
    "stars": (PG.stars, spec_stars, lambda c: rng_n(3, c)),
    "generalized_stars": (PG.generalized_stars, spec_generalized_stars, lambda c: [(n, k) for n in range(3, c + 1) for k in range(1, n)]),
    "rapaport_m1": (PG.rapaport_m1, spec_rapaport_m1, lambda c: rng_n(2, c)),
    "rapaport_m2": (PG.rapaport_m2, spec_rapaport_m2, lambda c: rng_n(2, c)),
    "all_cycles": (PG.all_cycles, spec_all_cycles, lambda c: rng_n(2, min(c, 6))),
    "lsl_cycles": (PG.lsl_cycles, spec_lsl_cycles, lambda c: [(n, f) for n in range(3, c + 1) for f in (True, False)]),
    "wrapped_k_cycles": (PG.wrapped_k_cycles, spec_wrapped_k_cycles, lambda c: [(n, k) for n in range(2, c + 1) for k in range(2, n + 1)]),
    "consecutive_k_cycles": (PG.consecutive_k_cycles, spec_consecutive_k_cycles, lambda c: [(n, k) for n in range(1, c + 1) for k in range(1, n + 1)]),
    "increasing_k_cycles": (PG.increasing_k_cycles, spec_increasing_k_cycles, lambda c: [(n, k) for n in range(1, min(c, 8) + 1) for k in range(1, n + 1)]),
    "down_cycles": (PG.down_cycles, spec_down_cycles, lambda c: rng_n(2, c)),
    "prefix_cycles": (PG.prefix_cycles, spec_prefix_cycles, lambda c: rng_n(2, c)),
    "larx": (PG.larx, spec_larx, lambda c: rng_n(2, c)),
    "koltsov3": (PG.koltsov3, spec_koltsov3, lambda c: [(n, 2, k, 1) for n in range(5, c + 1) for k in range(0, n - 3)] + [(n, 1, k, d) for n in range(3, min(c, 8) + 1) for k in range(0, n) for d in range(1, n - k)]),
}

# families whose `generated = specification` theorems live in each module, and parameter grids beyond the usual cap for
# the directed search (kept small where the number of generators grows fast)
GEN_FAMILIES = {
    "C15g2": ["all_transpositions", "full_reversals", "transposons", "block_interchange", "signed_reversals"],
    "C15g3": ["lx", "lrx", "pancake", "coxeter", "cyclic_coxeter", "stars", "top_spin", "larx", "generalized_stars", "burnt_pancake", "cubic_pancake"],
    "C15g4": ["prefix_cycles", "consecutive_k_cycles", "down_cycles", "three_cycles_01i", "wrapped_k_cycles", "lsl_cycles"],
    "C15g5": ["rapaport_m2", "koltsov3", "rapaport_m1", "sheveleva2"],
    "C15g6": ["three_cycles_0ij", "three_cycles", "increasing_k_cycles", "derangements"],
    "C15g9": ["all_cycles"],
}
BIG_PARAMS = {
    "transposons": lambda: rng_n(9, 14),
    "block_interchange": lambda: rng_n(8, 11),
    "signed_reversals": lambda: rng_n(9, 24),
    "burnt_pancake": lambda: rng_n(9, 40),
    "all_transpositions": lambda: rng_n(10, 40),
    "full_reversals": lambda: rng_n(10, 40),
    "down_cycles": lambda: rng_n(10, 40),
    "koltsov3": lambda: [(n, 2, k, 1) for n in (13, 20, 31, 40) for k in range(0, n - 3)] + [(n, 1, k, d) for n in (9, 14, 21) for k in range(0, n) for d in range(1, n - k)],
}

LOOKUP = {  # prepare_graph name -> (constructor, needs)
    "lx": (PG.lx, "n"),
    "lrx": (PG.lrx, "n"),
    "top_spin": (PG.top_spin, "n"),
    "all_transpositions": (PG.all_transpositions, "n"),
    "transposons": (PG.transposons, "n"),
    "block_interchange": (PG.block_interchange, "n"),
    "full_reversals": (PG.full_reversals, "n"),
    "coxeter": (PG.coxeter, "n"),
    "pancake": (PG.pancake, "n"),
    "all_cycles": (PG.all_cycles, "n"),
    "lsl_cycles": (PG.lsl_cycles, "n"),
    "larx": (PG.larx, "n"),
    "01i": (PG.three_cycles_01i, "n"),
    "down_cycles": (PG.down_cycles, "n"),
    "prefix_cycles": (PG.prefix_cycles, "n"),
    "increasing_k_cycles": (PG.increasing_k_cycles, "nk"),
    "consecutive_k_cycles": (PG.consecutive_k_cycles, "nk"),
}


def def_tuple(d):
    if d.is_permutation_group():
        return (d.generators_permutations, list(d.generator_names), list(d.central_state), d.name)
    return ([m.matrix.tolist() for m in d.generators_matrices], [m.modulo for m in d.generators_matrices], list(d.generator_names), list(d.central_state), d.name)


def sympy_orders(jobs):
    if not jobs:
        return {}
    prog = "import json,sys\nfrom sympy.combinatorics import Permutation, PermutationGroup\njobs=json.load(sys.stdin)\nprint(json.dumps({k:int(PermutationGroup([Permutation(p) for p in g]).order()) for k,g in jobs.items()}))\n"
    try:
        r = subprocess.run(["python3-vt", "-c", prog], input=json.dumps(jobs), capture_output=True, text=True, timeout=900)
        return json.loads(r.stdout) if r.returncode == 0 else {}
    except (OSError, subprocess.TimeoutExpired, ValueError):
        return {}


def check_family(ck, fam, ctor, spec, args, orders_jobs):
    case = {"family": fam, "args": list(args)}
    try:
        d = ctor(*args)
    except Exception as ex:  # pylint: disable=broad-except
        ck.violation(f"C15/{fam}/constructor-raises", f"{fam}{args} raised inside its documented range: {type(ex).__name__}: {ex}", {"case": case})
        return
    s = spec(*args)
    gens = d.generators_permutations
    ck.case(["family", fam, list(args)], True, sample={"family": fam, "args": list(args), "n_generators": len(gens), "names": d.generator_names[:4]})
    ck.count("family:" + fam)
    problems = []
    size = s["size"]
    if not all(sorted(g) == list(range(size)) for g in gens):
        problems.append("a generator is not a permutation of the documented length")
    if d.central_state != list(range(size)):
        problems.append("central state is not the identity of the documented length")
    if len(d.generator_names) != len(gens):
        problems.append("number of names differs from number of generators")
    if "count" in s and len(gens) != s["count"]:
        problems.append(f"documented number of generators {s['count']}, got {len(gens)}")
    if gens != s["gens"]:
        problems.append("generators differ from the documented structure (closed-form specification)")
    if "names" in s and list(d.generator_names) != s["names"]:
        problems.append("generator names differ from the documented ones")
    if "name" in s and d.name != s["name"]:
        problems.append(f"name {d.name!r} differs from {s['name']!r}")
    true_ic = all(graphs.inv_perm(g) in gens for g in gens)
    if d.generators_inverse_closed != true_ic:
        problems.append("inverse-closed flag is wrong")
    if s.get("ic") is not None and true_ic != s["ic"] and not (fam in ("lx",) and size < 3):
        problems.append(f"documented inverse-closedness {s['ic']}, actual {true_ic}")
    if problems:
        ck.violation(f"C15/{fam}/" + problems[0].split()[0] + "-" + problems[0].split()[1], f"{fam}{args}: " + "; ".join(problems), {"case": case, "problems": problems, "observed_generators": gens[:6], "expected_generators": s["gens"][:6]})
        return
    # the Lean specification (CvModel/Families.lean) through the driver
    ints_ = [int(a) for a in args if not isinstance(a, bool)]
    flags_ = [1 if a else 0 for a in args if isinstance(a, bool)]
    m = ck.driver().ask(f"family {fam} ; {' '.join(map(str, ints_))} ; {' '.join(map(str, flags_))}")
    want = f"ok ; {d.name} ; {' | '.join(d.generator_names)} ; {' '.join(map(str, d.central_state))} ; {' | '.join(' '.join(map(str, g)) for g in gens)}"
    if m == "none":
        ck.correspondence_break("Lean family specification rejects parameters the library accepts", {"case": case})
    elif " ".join(m.split()) != " ".join(want.split()):
        ck.correspondence_break("Lean family specification and library differ", {"case": case, "model": m[:300], "impl": want[:300]})
    else:
        ck.count("lean-spec-agrees")
    if s.get("order") is not None and size <= 8 and len(gens) <= 400:
        orders_jobs[fam + "|" + ",".join(map(str, args))] = (gens, s["order"])


def main():
    ck = Check("C15")
    broken_gen = []
    ck.lean_obligations("CvProps.C15", THEOREMS)
    if not ck.replay:
        from cv.pygen_corr import gen_tie  # noqa: E402

        for mod, thms in GEN_MODULES.items():
            if thms and os.path.exists(os.path.join(VERIF, "lean", "CvProps", mod + ".lean")):
                if not ck.gen_obligations("CvProps." + mod, thms, "translated source"):
                    broken_gen.append(mod)
        gen_tie(ck, None, [], ("fam",))
    cap = 9 if not ck.thorough else 12
    only = None
    if ck.replay:
        body = json.load(open(os.path.join(VERIF, ck.replay) if not os.path.isabs(ck.replay) else ck.replay))
        only = body["case"].get("family")
    jobs = {}
    for fam, (ctor, spec, params) in FAMILIES.items():
        if only and fam != only:
            continue
        for args in params(cap):
            if ck.enough():
                break
            check_family(ck, fam, ctor, spec, args, jobs)
    # Histories: a constructor's answer must not depend on which constructors were called before it in the same process
    # (shared helper results, caches).  All constructors — including sheveleva2, judged by the Lean specification through the
    # driver — are called in a shuffled order, several times, with repeated sizes; every answer is compared with the
    # specification again.
    if not only and not ck.violations:
        def lean_spec(fam, args):
            ints_ = [int(a) for a in args if not isinstance(a, bool)]
            flags_ = [1 if a else 0 for a in args if isinstance(a, bool)]
            return ck.driver().ask(f"family {fam} ; {' '.join(map(str, ints_))} ; {' '.join(map(str, flags_))}")

        def render(d):
            return f"ok ; {d.name} ; {' | '.join(d.generator_names)} ; {' '.join(map(str, d.central_state))} ; {' | '.join(' '.join(map(str, g)) for g in d.generators_permutations)}"

        calls = []
        for fam, (ctor, spec, params) in FAMILIES.items():
            ps = [a for a in params(8) if all(isinstance(x, bool) or 4 <= x or k > 0 for k, x in enumerate(a))]
            for a in ck.rng.sample(ps, min(len(ps), 3)):
                calls.append((fam, ctor, a))
        for n in (5, 6, 7, 8, 9):
            for k in range(1, n - 2):
                calls.append(("sheveleva2", PG.sheveleva2, (n, k)))
        calls = calls * 2
        ck.rng.shuffle(calls)
        for fam, ctor, a in calls:
            if ck.enough():
                break
            try:
                got = render(ctor(*a))
            except Exception as ex:  # pylint: disable=broad-except
                got = f"raised {type(ex).__name__}"
            want = lean_spec(fam, a)
            ck.evaluations += 1
            ck.count("history:" + fam)
            if " ".join(got.split()) != " ".join(want.split()):
                ck.violation(f"C15/{fam}/history", f"{fam}{a} called after other constructors in the same process deviates from its specification", {"case": {"family": fam, "args": list(a), "history": "shuffled calls of all constructors (seeded)"}, "observed": got[:300], "expected": want[:300]})
    # Directed search: a theorem `translated constructor ∘ create = specification` no longer checks against the current
    # source.  That is not a violation by itself; the families of the broken module are now compared with the
    # specification far beyond the usual parameter cap (the theorems were about ALL parameters, so the difference may
    # lie anywhere), within a time budget.
    if broken_gen and not ck.violations and not only:
        t_end = time.time() + float(os.environ.get("CV_GEN_SEARCH_BUDGET", "150"))
        for mod in broken_gen:
            for fam in [f for f in GEN_FAMILIES.get(mod, []) if f in FAMILIES]:
                ctor, spec, params = FAMILIES[fam]
                seen = set(params(cap))
                big = BIG_PARAMS.get(fam) or (lambda: [a for c in (14, 20, 27, 33, 40) for a in params(c)][:: 1])
                todo = [a for a in big() if a not in seen]
                # spread over the range rather than the smallest first
                todo = todo[:: max(1, len(todo) // 60)]
                for args in todo:
                    if time.time() > t_end or ck.violations:
                        break
                    ck.count("directed-search:" + fam)
                    check_family(ck, fam, ctor, spec, args, {})
    # group orders where the documentation names the group (S_n, A_n, hyperoctahedral), enumerable sizes
    orders = sympy_orders({k: v[0] for k, v in jobs.items()})
    ck.extra["group_orders_checked"] = len(orders)
    for k, o in orders.items():
        ck.count("order-checked")
        if o != jobs[k][1]:
            fam, _, a = k.partition("|")
            ck.violation(f"C15/{fam}/group-order", f"{fam}({a}) generates a group of order {o}, documentation says {jobs[k][1]}", {"case": {"family": fam, "args": [x for x in a.split(",")]}, "observed": o, "expected": jobs[k][1]})
    # matrix families
    for n in range(3, 6):
        for modulo in (0, 2, 3, 5):
            for add in (True, False):
                d = MG.heisenberg(n=n, modulo=modulo, add_inverses=add)
                ck.case(["heisenberg", n, modulo, add], True)
                ck.count("family:heisenberg")
                mats = [m.matrix.tolist() for m in d.generators_matrices]
                base = []
                for i in range(1, n - 1):
                    M = np.eye(n, dtype=np.int64)
                    M[0][i] = 1
                    base.append(M.tolist())
                for i in range(1, n - 1):
                    M = np.eye(n, dtype=np.int64)
                    M[i][n - 1] = 1
                    base.append(M.tolist())
                ok = mats[: len(base)] == base and d.central_state == np.eye(n, dtype=np.int64).reshape(-1).tolist()
                names = (["x"] if n == 3 else [f"x{i}" for i in range(1, n - 1)]) + (["y"] if n == 3 else [f"y{i}" for i in range(1, n - 1)])
                ok = ok and d.generator_names[: len(base)] == names and d.name.startswith(f"heisenberg-{n}" + (f"%{modulo}" if modulo else ""))
                doc_count = (4 if add else 2) * (n - 2)
                if add and modulo == 2:
                    doc_count = 2 * (n - 2)  # every generator is its own inverse mod 2 (documented count counts coincidences)
                    ck.count("boundary:heisenberg-mod2-count")
                if not ok or len(mats) != doc_count or (add and not d.generators_inverse_closed):
                    ck.violation("C15/heisenberg", f"heisenberg(n={n}, modulo={modulo}, add_inverses={add}) deviates from its documentation", {"case": {"family": "heisenberg", "args": [n, modulo, add]}, "n_generators": len(mats), "documented": doc_count})
    for n in (2, 3, 4):
        for modulo in (0, 2, 3, 4, 5, 7):
            for fam, ctor in (("sl_fund_roots", MG.special_linear_fundamental_roots), ("sl_root_weyl", MG.special_linear_root_weyl)):
                d = ctor(n, modulo=modulo)
                ck.case([fam, n, modulo], True)
                ck.count("family:" + fam)
                probs = []
                B = modulo if modulo else None
                for m in d.generators_matrices:
                    det = round(np.linalg.det(m.matrix.astype(float)))
                    if (det - 1) % (modulo or 10**9) != 0:
                        probs.append("generator does not have determinant 1")
                if not d.generators_inverse_closed:
                    probs.append("generators are not inverse-closed")
                if fam == "sl_fund_roots":
                    if len(d.generators_matrices) != 4 * (n - 1):
                        probs.append("documented 4(n-1) generators")
                    for k in range(n - 1):
                        e = [[1 if j == i or (i == k and j == k + 1) else 0 for j in range(n)] for i in range(n)]
                        f = [[1 if j == i or (i == k + 1 and j == k) else 0 for j in range(n)] for i in range(n)]
                        if d.generators_matrices[4 * k].matrix.tolist() != e or d.generators_matrices[4 * k + 2].matrix.tolist() != f:
                            probs.append("e_k / f_k are not the elementary matrices of the fundamental roots")
                            break
                    if d.generator_names != [x for k in range(n - 1) for x in (f"e{k+1}", f"e{k+1}'", f"f{k+1}", f"f{k+1}'")]:
                        probs.append("names")
                else:
                    if d.generator_names != ["e", "e'", "w", "w'"] or len(d.generators_matrices) != 4:
                        probs.append("names / count")
                if d.name != fam + f"-{n}" + (f"%{modulo}" if modulo else "") or d.central_state != np.eye(n, dtype=np.int64).reshape(-1).tolist():
                    probs.append("name / central state")
                if probs:
                    ck.violation(f"C15/{fam}", f"{fam}({n}, modulo={modulo}): " + "; ".join(sorted(set(probs))), {"case": {"family": fam, "args": [n, modulo]}})
    # name dispatch: looking a graph up by name returns the constructor's definition; own name maps back
    for name, (ctor, needs) in LOOKUP.items():
        for n in range(4 if name == "top_spin" else 3, 8):
            ks = [None] if needs == "n" else list(range(2, n + 1))
            for k in ks:
                try:
                    want = ctor(n) if k is None else ctor(n, k)
                    got = prepare_graph(name, n=n) if k is None else prepare_graph(name, n=n, k=k)
                    g2 = create_graph(name=name, n=n) if k is None else create_graph(name=name, n=n, k=k)
                except (AssertionError, KeyError, ValueError, IndexError) as ex:
                    ck.violation(f"C15/lookup/{name}/raises", f"prepare_graph({name!r}, n={n}) raised: {type(ex).__name__}: {ex}", {"case": {"family": "lookup", "name": name, "n": n, "k": k}})
                    continue
                ck.case(["lookup", name, n, k], True)
                ck.count("lookup")
                if def_tuple(got) != def_tuple(want) or def_tuple(g2.definition) != def_tuple(want):
                    ck.violation(f"C15/lookup/{name}", f"prepare_graph({name!r}, n={n}) differs from the constructor's definition", {"case": {"family": "lookup", "name": name, "n": n, "k": k}})
    # every constructor's own name: when the lookup accepts it, it must map back to that definition
    own = []
    for fam, (ctor, spec, params) in FAMILIES.items():
        for args in params(7):
            try:
                own.append((fam, args, ctor(*args)))
            except Exception:  # pylint: disable=broad-except
                pass
    for fam, args, d in own:
        if not d.name:
            continue
        ck.case(["own-name", fam, list(args)], True)
        ck.count("own-name")
        try:
            back = prepare_graph(d.name)
        except (ValueError, AssertionError, KeyError, TypeError, IndexError):
            continue
        if def_tuple(back) != def_tuple(d):
            ck.violation(f"C15/name-roundtrip/{fam}", f"the own name {d.name!r} of {fam}{args} is accepted by the lookup but maps to a different definition", {"case": {"family": "name-roundtrip", "name": d.name, "args": list(args)}})
    for n in range(3, 10):
        for fam, ctor in (("lrx", PG.lrx), ("lx", PG.lx)):
            d = ctor(n)
            ck.case(["name-roundtrip", fam, n], True)
            ck.count("name-roundtrip")
            try:
                back = prepare_graph(d.name)
            except (ValueError, AssertionError):
                continue  # the name is not accepted by the lookup: nothing to claim
            if def_tuple(back) != def_tuple(d):
                ck.violation(f"C15/name-roundtrip/{fam}", f"the definition's own name {d.name!r} is accepted by the lookup but maps to a different definition", {"case": {"family": "name-roundtrip", "name": d.name}})
    # conjugacy_classes without sampling: the generators are the whole class, once each, named (type)_1.. in order
    def partitions(n, top=None):
        top = top or n
        if n == 0:
            yield []
            return
        for k in range(min(n, top), 0, -1):
            for rest in partitions(n - k, k):
                yield [k] + rest

    def class_size(n, lens):
        from math import factorial

        size = factorial(n)
        for l in set(lens):
            size //= l ** lens.count(l) * factorial(lens.count(l))
        return size

    def cycle_type(p):
        seen, out = set(), []
        for i in range(len(p)):
            if i not in seen:
                k, j = 0, i
                while j not in seen:
                    seen.add(j)
                    j = p[j]
                    k += 1
                out.append(k)
        return sorted(out, reverse=True)

    rng = ck.rng
    for n in list(range(2, 8)) + [9, 10]:
        for lens in partitions(n):
            if len(lens) == lens.count(1) or class_size(n, lens) > (800 if not ck.thorough else 30000):
                continue
            key = [l for l in lens if l > 1] + [1] * rng.randint(0, lens.count(1))
            rng.shuffle(key)
            case = {"family": "conjugacy_classes", "n": n, "key": key}
            ck.case(["conjugacy_classes", n, key], True)
            ck.count("conjugacy_classes")
            try:
                d = PG.conjugacy_classes(n, {tuple(key): None})
                d2 = prepare_graph("conjugacy_class", n=n, classes={tuple(key): None})
            except (AssertionError, ValueError, KeyError, IndexError) as ex:
                ck.violation("C15/conjugacy_classes/raises", f"conjugacy_classes({n}, {key}) raised {type(ex).__name__}: {ex}", {"case": case})
                continue
            gens = [list(map(int, g)) for g in d.generators_permutations]
            tname = ",".join(map(str, lens))
            bad = None
            if len(gens) != class_size(n, lens):
                bad = f"{len(gens)} generators, the class has {class_size(n, lens)} permutations"
            elif len({tuple(g) for g in gens}) != len(gens):
                bad = "a permutation of the class is listed twice"
            elif any(sorted(g) != list(range(n)) or cycle_type(g) != lens for g in gens):
                bad = "a generator is not a permutation of the documented cycle type"
            elif list(d.generator_names) != [f"({tname})_{i + 1}" for i in range(len(gens))]:
                bad = "generator names are not (type)_1 .. (type)_k"
            elif list(d.central_state) != list(range(n)) or d.name != f"conjugacy_class-{n}-{tname}":
                bad = f"central state or name wrong ({d.name})"
            elif def_tuple(d2) != def_tuple(d):
                bad = "lookup by name differs from the constructor"
            if bad:
                ck.violation("C15/conjugacy_classes", f"conjugacy_classes({n}, {{{tuple(key)}: None}}): {bad}", {"case": case})
    # several classes in one call, with sample counts 0, 1, 2 next to enumerated classes: generator count, cycle types
    # block by block and the documented graph name
    for n in (4, 5, 6, 7):
        parts = [p for p in partitions(n) if len(p) != p.count(1) and class_size(n, p) <= 300]
        for _ in range(4):
            keys = rng.sample(parts, min(len(parts), rng.randint(2, 3)))
            counts = [rng.choice([None, 0, 0, 1, 2]) for _ in keys]
            if all(c == 0 for c in counts):
                counts[0] = None
            classes = {tuple(k): c for k, c in zip(keys, counts)}
            case = {"family": "conjugacy_classes-multi", "n": n, "classes": [[list(k), c] for k, c in classes.items()]}
            ck.case(["conjugacy_classes-multi", n, case["classes"]], True)
            ck.count("conjugacy_classes: several classes")
            try:
                d = PG.conjugacy_classes(n, classes)
            except (AssertionError, ValueError, KeyError, IndexError) as ex:
                ck.violation("C15/conjugacy_classes/raises", f"conjugacy_classes({n}, {classes}) raised {type(ex).__name__}: {ex}", {"case": case})
                continue
            gens = [list(map(int, g)) for g in d.generators_permutations]
            want_n = sum(class_size(n, k) if c is None else c for k, c in zip(keys, counts))
            pos, bad = 0, None
            for k, c in zip(keys, counts):
                m = class_size(n, k) if c is None else c
                if any(cycle_type(g) != k for g in gens[pos : pos + m]):
                    bad = f"class {k}: a generator of another cycle type"
                pos += m
            want_name = f"conjugacy_class-{n}-" + "-".join(",".join(map(str, k)) + ("" if c is None else f"_{c}") for k, c in zip(keys, counts))
            if len(gens) != want_n:
                bad = f"{len(gens)} generators, {want_n} requested"
            elif not bad and d.name != want_name:
                bad = f"name {d.name!r} instead of {want_name!r}"
            if bad:
                ck.violation("C15/conjugacy_classes/multi", f"conjugacy_classes({n}, {classes}): {bad}", {"case": case})
    # rand_generators(n, k): exactly k pairwise distinct permutations of n points, named after themselves, for every k
    # up to the documented maximum n! (then the generator set is all of S_n)
    import numpy as _np
    from math import factorial as _fact

    rg_cases = [(n, k) for n in (1, 2, 3, 4) for k in sorted({1, 2, _fact(n) // 2 or 1, _fact(n) - 1 or 1, _fact(n)}) if 1 <= k <= _fact(n)] + [(5, 120), (5, 119), (6, 720), (7, 5040), (9, 7)]
    if ck.thorough:
        rg_cases += [(8, 40320), (8, 40319), (7, 5039)]
    for n, k in rg_cases:
        if ck.enough():
            break
        _np.random.seed(ck.rng.randrange(2**31))
        case = {"family": "rand_generators", "n": n, "k": k}
        ck.case(["rand_generators", n, k], True)
        ck.count("rand_generators")
        try:
            d = PG.rand_generators(n, k)
            d2 = prepare_graph("rand_generators", n=n, k=k)
        except (AssertionError, ValueError, KeyError, IndexError) as ex:
            ck.violation("C15/rand_generators/raises", f"rand_generators({n}, {k}) raised {type(ex).__name__}: {ex}", {"case": case})
            continue
        for dd, how in ((d, "constructor"), (d2, "lookup")):
            gens = [tuple(map(int, g)) for g in dd.generators_permutations]
            bad = None
            if len(gens) != k:
                bad = f"{len(gens)} generators instead of k = {k}"
            elif len(set(gens)) != k or any(sorted(g) != list(range(n)) for g in gens):
                bad = "generators are not pairwise distinct permutations"
            elif list(dd.generator_names) != [f"({','.join(map(str, g))})" for g in gens] or dd.name != f"rand_generators-{n}-{k}" or list(dd.central_state) != list(range(n)):
                bad = "names / graph name / central state are not the documented ones"
            if bad:
                ck.violation("C15/rand_generators", f"rand_generators({n}, {k}) via {how}: {bad}", {"case": case})
                break
    ck.assumptions = [
        "sampled members of conjugacy classes are checked through C20 (cycle types, counts per class); rand_generators for counts, distinctness and names here; sheveleva2 by the exhaustive comparison with the Lean specification when available",
        "group orders by Schreier-Sims (sympy, tooling venv) for sizes <= 8 where the documentation names the group",
    ]
    ck.finish(rule="every constructor x every admissible n up to 9 (12 thorough; smaller caps for families with factorially many generators) and every k / subset / add_inverses: generators, names, central state, name compared EXACTLY with a closed-form specification written from the documentation; documented counts and inverse-closedness; name dispatch; group orders for enumerable sizes", exhaustive=True)


if __name__ == "__main__":
    from cv.core import run_main

    run_main(main)
