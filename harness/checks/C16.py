"""C16 — puzzle definitions are faithful to their sources and to the physical puzzle."""

import glob
import json
import os
import sys

sys.path.insert(0, os.path.join(os.path.dirname(__file__), ".."))

from cv import graphs  # noqa: E402
from cv.core import REPO, VERIF, Check  # noqa: E402
from cayleypy import GapPuzzles, Puzzles  # noqa: E402
from cayleypy.puzzles import gap_puzzles as gp  # noqa: E402
from cayleypy.puzzles.hungarian_rings import get_group  # noqa: E402

# theorems `regenerated globe.py = specification` (CvProps/C16g.lean; translator harness/extract/pylean.py)
GEN_THEOREMS = [
    "Cv.C16g.help_cyclic_gen",
    "Cv.C16g.globe_gens_gen",
    "Cv.C16g.globe_puzzle_gen",
    "Cv.C16g.globe_gens_gen_all",
    "Cv.C16g.globe_puzzle_gen_all",
    "Cv.C16g.globe_puzzle_create_zero",
    "Cv.C16g.globe_puzzle_create",
]
GEN_THEOREMS_RINGS = [
    "Cv.Props.C16r.adm_of_admissible",
    "Cv.Props.C16r.circular_shift_gen",
    "Cv.Props.C16r.create_right_ring_gen_adm",
    "Cv.Props.C16r.create_right_ring_gen",
    "Cv.Props.C16r.hungarian_rings_permutations_step",
    "Cv.Props.C16r.hungarian_rings_permutations_forth_adm",
    "Cv.Props.C16r.hungarian_rings_permutations_forth",
    "Cv.Props.C16r.hungarian_rings_permutations_back_adm",
    "Cv.Props.C16r.hungarian_rings_permutations_back",
    "Cv.Props.C16r.hungarian_rings_generators_gen_adm",
    "Cv.Props.C16r.hungarian_rings_generators_gen",
    "Cv.Props.C16r.hungarian_rings_generators_reject_small",
    "Cv.Props.C16r.hungarian_rings_generators_reject_index",
    "Cv.Props.C16r.hungarian_rings_generators_reject_neg",
    "Cv.Props.C16r.hungarian_rings_generators_reject_mixed",
    "Cv.Props.C16r.hungarian_rings_generators_isSome_iff",
]

THEOREMS = [
    "Cv.C16.fromCycles_toCycles",
    "Cv.C16.parse_print",
    "Cv.C16.parse_print_identity",
    "Cv.C16.parse_wellFormed",
    "Cv.C16.centralFromIp_spec",
    "Cv.C16.globe_inverse_closed",
    "Cv.C16.globe_valid",
    "Cv.C16.hungarianRings_cycles",
    "Cv.C16.cube_structure",
    "Cv.C16.cube_inverse_closed",
    "Cv.C16.cube_check",
    "Cv.C16.cube_matches_library_2_3_4",
    "Cv.C16.cube_check_evaluated_2_3",
]


# ---------------------------------------------------------------- independent reader of the GAP format
def read_gap(text):
    """Hand-written reader (no regular expressions, no code shared with the library).
    Returns (names, cycles per generator (1-based), ip classes or None)."""
    names, cycles, ip = [], [], None
    for line in text.split("\n"):
        pos = line.find(":=")
        if pos < 0:
            continue
        key, val = line[:pos], line[pos + 2 :]
        if key.startswith("M_"):
            cs, cur, num, inside = [], None, "", False
            for ch in val:
                if ch == "(":
                    cur, num, inside = [], "", True
                elif ch == ")" and inside:
                    if num:
                        cur.append(int(num))
                    if cur:
                        cs.append(cur)
                    cur, num, inside = None, "", False
                elif inside and ch.isdigit():
                    num += ch
                elif inside and ch == ",":
                    if num:
                        cur.append(int(num))
                    num = ""
            nm = key
            while nm.startswith("M_"):  # some shipped files write M_M_F: the move name is what follows the prefixes
                nm = nm[2:]
            names.append(nm)
            cycles.append(cs)
        elif key == "ip":
            body = val.replace(";", "").strip()
            classes, cur, num, depth = [], None, "", 0
            for ch in body:
                if ch == "[":
                    depth += 1
                    if depth == 2:
                        cur, num = [], ""
                elif ch == "]":
                    if depth == 2:
                        if num:
                            cur.append(int(num))
                        classes.append(cur)
                        cur, num = None, ""
                    depth -= 1
                elif ch.isdigit():
                    num += ch
                elif ch == "," and depth == 2:
                    if num:
                        cur.append(int(num))
                    num = ""
            ip = classes
    return names, cycles, ip


def perm_of_cycles(n, cs):
    p = list(range(n))
    for c in cs:
        for a, b in zip(c, c[1:] + c[:1]):
            p[a - 1] = b - 1
    return p


def same_partition(colouring, n, ip):
    """colouring[i] == colouring[j] exactly when i, j are declared identical (1-based classes)."""
    cls = {}
    for k, c in enumerate(ip or []):
        for v in c:
            cls[v - 1] = k
    for i in range(n):
        for j in range(i + 1, n):
            declared = i in cls and j in cls and cls[i] == cls[j]
            if (colouring[i] == colouring[j]) != declared:
                return False
    return True


def check_gap_text(ck, text, label, synthetic=None):
    case = {"source": label} if synthetic is None else {"source": label, "text": text}
    try:
        d = gp._parse_gap_file(text)  # pylint: disable=protected-access
    except Exception as ex:  # pylint: disable=broad-except
        ck.violation("C16/gap/error", f"reading {label} raised: {type(ex).__name__}: {ex}", {"case": case})
        return
    names, cycles, ip = read_gap(text)
    n = max(max(c) for cs in cycles for c in cs)
    want = [perm_of_cycles(n, cs) for cs in cycles]
    ck.case(["gap", label if synthetic is None else text], True, sample={"source": label, "generators": len(names), "points": n, "identical_classes": None if ip is None else len(ip)})
    ck.count("gap:" + ("shipped" if synthetic is None else "synthetic"))
    problems = []
    if d.generators_permutations != want:
        problems.append("permutations differ from the cycles written in the text")
    if list(d.generator_names) != names:
        problems.append("generator names differ")
    if len(d.central_state) != n:
        problems.append("number of points is not the largest moved index")
    if ip is None:
        if d.central_state != list(range(n)):
            problems.append("central state is not the identity although no identical pieces are declared")
    elif len(d.central_state) == n and not same_partition(d.central_state, n, ip):
        problems.append("central state does not colour points equal exactly when declared identical")
    if synthetic is not None:
        gens0, ip0 = synthetic
        if want != gens0:
            problems.append("(check) independent reader disagrees with the written permutations")
    if problems:
        ck.violation("C16/gap/" + problems[0].split()[0], f"{label}: " + "; ".join(problems), {"case": case, "problems": problems})
        return
    # the Lean model of the reader (Cv.Gap.parseGap) on the same text
    m = ck.driver().ask("gap.parse " + text.encode("utf-8").hex())
    want = f"ok ; {' | '.join(d.generator_names)} ; {' | '.join(' '.join(map(str, g)) for g in d.generators_permutations)} ; {' '.join(map(str, d.central_state))}"
    if " ".join(m.split()) != " ".join(want.split()):
        ck.correspondence_break("parseGap (model) and the library's reader differ", {"case": case, "model": m[:200], "impl": want[:200]})
    else:
        ck.count("lean-gap-model-agrees")


def cycles_of(p):
    seen, out = set(), []
    for i in range(len(p)):
        if i in seen or p[i] == i:
            continue
        c, j = [], i
        while j not in seen:
            seen.add(j)
            c.append(j)
            j = p[j]
        out.append(c)
    return out


def write_gap(rng, gens, names, ip):
    lines = ["# synthetic", ""]
    for nm, p in zip(names, gens):
        cs = cycles_of(p)
        # cycles under the library's convention perm[c_i] = c_{i+1}
        lines.append(f"M_{nm}:=" + "".join("(" + ",".join(str(v + 1) for v in c) + ")" for c in cs) + ";")
    lines.append("Gen:=[" + ",".join("M_" + nm for nm in names) + "];")
    if ip is not None:
        lines.append("ip:=" + json.dumps(ip).replace(" ", "") + ";")
    return "\n".join(lines) + "\n"


def compose(p, q):
    return [q[p[i]] for i in range(len(p))]


def power(p, k):
    r = list(range(len(p)))
    for _ in range(k):
        r = compose(p, r)
    return r


def support(p):
    return {i for i, v in enumerate(p) if v != i}


def inverse_closed(gens):
    s = {tuple(g) for g in gens}
    return all(tuple(graphs.inv_perm(g)) in s for g in gens)


def check_cube(ck, n):
    from cayleypy.puzzles.cube import generate_cube_permutations_oneline

    moves = {k: [int(x) for x in v.split()] for k, v in generate_cube_permutations_oneline(n).items()}
    total = 6 * n * n
    ident = list(range(total))
    case = {"puzzle": "cube", "n": n}
    ck.case(["cube", n], True, sample={"puzzle": "cube", "n": n, "layer_turns": sorted(moves)})
    ck.count("cube:n=" + str(n))
    problems = []
    face = lambda s: s // (n * n)  # noqa: E731
    missing = [f"{axis}{s}" for axis in "frd" for s in range(n) if f"{axis}{s}" not in moves]
    if missing or len(moves) != 3 * n:
        ck.violation("C16/cube/layer-turns", f"cube {n}: the layer turns are not exactly f0..f{n-1}, r0..r{n-1}, d0..d{n-1} (missing {missing[:6]}, {len(moves)} produced)", {"case": case, "produced": sorted(moves)})
        return
    for axis in "frd":
        sl = [moves[f"{axis}{s}"] for s in range(n)]
        sup = [support(p) for p in sl]
        for s, p in enumerate(sl):
            if sorted(p) != ident:
                problems.append(f"{axis}{s} is not a permutation")
                continue
            if power(p, 4) != ident or power(p, 2) == ident:
                problems.append(f"{axis}{s} does not have order 4")
            outer = s in (0, n - 1)
            want = 4 * n + (n * n - (n % 2) if outer else 0)
            if len(sup[s]) != want:
                problems.append(f"{axis}{s} moves {len(sup[s])} stickers, its layer has {want} movable stickers")
            # side stickers travel around four different faces; outer-face stickers stay on their face
            faces_fixed = set()
            for c in cycles_of(p):
                fs = [face(v) for v in c]
                if len(c) != 4 and not (len(c) == 4 or (outer and len(c) in (4,))):
                    problems.append(f"{axis}{s} has a cycle of length {len(c)}")
                if len(set(fs)) == 1:
                    faces_fixed.add(fs[0])
                elif len(set(fs)) != 4:
                    problems.append(f"{axis}{s}: a sticker cycle visits {len(set(fs))} faces")
            if len(faces_fixed) != (1 if outer else 0):
                problems.append(f"{axis}{s} turns {len(faces_fixed)} whole faces")
        for s in range(n):
            for t in range(s + 1, n):
                if sup[s] & sup[t]:
                    problems.append(f"layers {axis}{s} and {axis}{t} share stickers")
                if compose(sl[s], sl[t]) != compose(sl[t], sl[s]):
                    problems.append(f"{axis}{s} and {axis}{t} do not commute")
        union = set().union(*sup)
        if len(union) != total - (2 if n % 2 else 0):
            problems.append(f"the layers of axis {axis} cover {len(union)} stickers")
        # turning every layer of an axis is a rotation of the whole cube: it maps faces to faces
        whole = ident
        for p in sl:
            whole = compose(p, whole)
        img = {}
        for j in range(total):
            img.setdefault(face(j), set()).add(face(whole[j]))
        if any(len(v) != 1 for v in img.values()) or power(whole, 4) != ident:
            problems.append(f"turning all layers of axis {axis} is not a rotation of the whole cube")
    # layers of different axes do not commute in general but every outer layer turn is conjugate: same cycle type
    types = {k: sorted(len(c) for c in cycles_of(p)) for k, p in moves.items()}
    for s in range(n):
        if not (types[f"f{s}"] == types[f"r{s}"] == types[f"d{s}"] or types[f"f{s}"] == types[f"r{n-1-s}"] == types[f"d{s}"]):
            problems.append(f"layer {s}: the three axes have different cycle types")
    metrics = ["QSTM", "QTM", "HTM"] + (["ATM"] if n <= 3 else []) + (["fixed_QTM", "fixed_HTM"] if n == 2 else [])
    for metric in metrics:
        d = Puzzles.rubik_cube(n, metric)
        ck.count("cube-metric:" + metric)
        g = d.generators_permutations
        if not inverse_closed(g) or not d.generators_inverse_closed:
            problems.append(f"{metric}: generator set is not inverse-closed")
        if sorted(d.central_state) != sorted(c for c in range(6) for _ in range(n * n)):
            problems.append(f"{metric}: central state is not six colours of n^2 stickers")
        if metric in ("QSTM", "QTM", "HTM"):
            for nm, p in zip(d.generator_names, g):
                base = nm.replace("_inv", "").replace("'", "").replace("^2", "")
                if base not in moves:
                    problems.append(f"{metric}: generator {nm} is not a layer turn")
                    continue
                k = 2 if "^2" in nm else 3 if ("_inv" in nm or "'" in nm) else 1
                if p != power(moves[base], k):
                    problems.append(f"{metric}: generator {nm} is not the corresponding power of the layer turn")
            if metric != "QSTM" and n % 2 == 1 and any(nm.startswith(("f", "r", "d")) and nm[1:].split("'")[0].split("^")[0].split("_")[0] == str((n - 1) // 2) for nm in d.generator_names):
                problems.append(f"{metric}: central layer turns must be excluded for odd n")
    for metric, op in (("QSTM", "cube_qstm"), ("QTM", "cube_qtm"), ("HTM", "cube_htm")):
        d = Puzzles.rubik_cube(n, metric)
        m = ck.driver().ask(f"puzzle {op} ; {n}")
        want = f"ok ; {' | '.join(d.generator_names)} ; {' | '.join(' '.join(map(str, g)) for g in d.generators_permutations)} ; {' '.join(map(str, d.central_state))}"
        if " ".join(m.split()) != " ".join(want.split()):
            ck.correspondence_break(f"cube {metric} n={n}: Lean closed-form specification and library differ", {"case": case, "metric": metric})
        else:
            ck.count("lean-cube-spec-agrees")
    if problems:
        ck.violation("C16/cube/" + problems[0].split()[0], f"cube {n}: " + "; ".join(problems[:6]), {"case": case, "problems": problems[:20]})


def ring_steps(p, start, target, limit):
    """number of applications of j -> p[j] leading from start to target (None if not reached)"""
    j = start
    for t in range(1, limit + 1):
        j = p[j]
        if j == target:
            return t
    return None


def check_rings(ck, params, documented):
    ls, li, rs, ri = params
    case = {"puzzle": "hungarian_rings", "params": list(params)}
    try:
        d = Puzzles.hungarian_rings(*params)
    except (AssertionError, ValueError) as ex:
        if documented:
            ck.violation("C16/rings/raises", f"hungarian_rings{params} raised for an admissible tuple: {type(ex).__name__}: {ex}", {"case": case})
        else:
            ck.count("rings:rejected (outside the admissible domain)")
        return
    ck.case(["rings", list(params)], True, sample={"puzzle": "hungarian_rings", "params": list(params), "names": d.generator_names})
    ck.count("rings:" + ("group" if documented else "random"))
    g = dict(zip(d.generator_names, d.generators_permutations))
    inter = 1 if li == 0 and ri == 0 else 2
    n = ls + rs - inter
    problems = []
    L, R = g["L"], g["R"]
    if len(L) != n or sorted(L) != list(range(n)) or sorted(R) != list(range(n)):
        problems.append("rotations are not permutations of left+right-intersections points")
    else:
        cl, cr = cycles_of(L), cycles_of(R)
        if len(cl) != 1 or len(cl[0]) != ls or len(cr) != 1 or len(cr[0]) != rs:
            problems.append("rotations are not single cycles of the ring lengths")
        shared = support(L) & support(R)
        want_shared = {0} if inter == 1 else {0, li}
        if shared != want_shared:
            problems.append(f"rings share {sorted(shared)}, stated intersection points {sorted(want_shared)}")
        elif inter == 2:
            tl = ring_steps(L, 0, li, ls)
            tr = ring_steps(R, 0, li, rs)
            if tl not in (li, ls - li) or tr not in (ri, rs - ri):
                problems.append(f"spacing of the intersections: {tl} steps on the left ring (stated {li}), {tr} on the right ring (stated {ri})")
        if not inverse_closed(d.generators_permutations) or not d.generators_inverse_closed:
            problems.append("generator set is not inverse-closed")
        for nm, p in g.items():
            if nm.startswith("-") and p != graphs.inv_perm(g[nm[1:]]):
                problems.append(f"{nm} is not the inverse rotation")
    m = ck.driver().ask(f"puzzle rings ; {ls} {li} {rs} {ri}")
    want = f"ok ; {' | '.join(d.generator_names)} ; {' | '.join(' '.join(map(str, g)) for g in d.generators_permutations)} ; {' '.join(map(str, d.central_state))}"
    if " ".join(m.split()) != " ".join(want.split()):
        ck.correspondence_break("hungarianRings: Lean closed-form specification and library differ", {"case": case, "model": m[:200], "impl": want[:200]})
    else:
        ck.count("lean-rings-spec-agrees")
    if problems:
        ck.violation("C16/rings/" + problems[0].split()[0], f"hungarian_rings{params}: " + "; ".join(problems), {"case": case, "problems": problems})


def check_globe(ck, a, b):
    case = {"puzzle": "globe", "a": a, "b": b}
    d = Puzzles.globe_puzzle(a, b)
    ck.case(["globe", a, b], True, sample={"puzzle": "globe", "a": a, "b": b, "generators": len(d.generators_permutations)})
    ck.count("globe")
    n = 2 * (a + 1) * b
    g = dict(zip(d.generator_names, d.generators_permutations))
    problems = []
    if any(sorted(p) != list(range(n)) for p in g.values()):
        problems.append("a generator is not a permutation of 2(a+1)b points")
    if not inverse_closed(d.generators_permutations) or not d.generators_inverse_closed:
        problems.append("generator set is not inverse-closed")
    for r in range(a + 1):
        p = g.get(f"r{r}")
        if p is None:
            problems.append(f"row rotation r{r} missing")
            continue
        cs = cycles_of(p)
        row = set(range(r * 2 * b, (r + 1) * 2 * b))
        if 2 * b > 1 and (len(cs) != 1 or set(cs[0]) != row):
            problems.append(f"r{r} is not a single cycle of its row")
        if g.get(f"r{r}_inv") != graphs.inv_perm(p):
            problems.append(f"r{r}_inv is not the inverse")
    for f in range(2 * b):
        p = g.get(f"f{f}")
        if p is None or compose(p, p) != list(range(n)):
            problems.append(f"flip f{f} is not an involution")
    if len(g) != 2 * (a + 1) + 2 * b:
        problems.append("number of generators is not 2(a+1) + 2b")
    m = ck.driver().ask(f"puzzle globe ; {a} {b}")
    want = f"ok ; {' | '.join(d.generator_names)} ; {' | '.join(' '.join(map(str, g)) for g in d.generators_permutations)} ; {' '.join(map(str, d.central_state))}"
    if " ".join(m.split()) != " ".join(want.split()):
        ck.correspondence_break("globe: Lean closed-form specification and library differ", {"case": case})
    else:
        ck.count("lean-globe-spec-agrees")
    if problems:
        ck.violation("C16/globe/" + problems[0].split()[0], f"globe({a},{b}): " + "; ".join(problems), {"case": case, "problems": problems})


def main():
    ck = Check("C16")
    rng = ck.rng
    ck.lean_obligations("CvProps.C16", THEOREMS)
    if not ck.replay:
        from cv.pygen_corr import gen_tie  # noqa: E402

        if GEN_THEOREMS_RINGS and os.path.exists(os.path.join(VERIF, "lean", "CvProps", "C16r.lean")):
            ck.gen_obligations("CvProps.C16r", GEN_THEOREMS_RINGS, "translated source")
        gen_tie(ck, "C16g", GEN_THEOREMS, ("globe", "rings"))
    if ck.replay:
        body = json.load(open(os.path.join(VERIF, ck.replay) if not os.path.isabs(ck.replay) else ck.replay))
        c = body["case"]
        if c.get("puzzle") == "cube":
            check_cube(ck, c["n"])
        elif c.get("puzzle") == "hungarian_rings":
            check_rings(ck, tuple(c["params"]), True)
        elif c.get("puzzle") == "globe":
            check_globe(ck, c["a"], c["b"])
        elif "text" in c:
            check_gap_text(ck, c["text"], c["source"], synthetic=(None, None))
        else:
            check_gap_text(ck, open(c["source"], encoding="utf-8").read(), c["source"])
        ck.finish(rule="replay of one recorded case")
    # every shipped .gap file
    files = sorted(glob.glob(os.path.join(REPO, "cayleypy", "puzzles", "gap_files", "**", "*.gap"), recursive=True))
    ck.obligation("the shipped .gap files are found", len(files) >= 90, len(files))
    for f in files:
        check_gap_text(ck, open(f, encoding="utf-8").read(), f)
    for nm in GapPuzzles.list_puzzles():
        d = GapPuzzles.puzzle(nm)
        ck.evaluations += 1
        if not d.generators_inverse_closed:
            ck.violation("C16/gap/puzzle-not-closed", f"GapPuzzles.puzzle({nm!r}) is not inverse-closed", {"case": {"source": nm}})
    # The public entry points, in one process, over ALL shipped files (several directories ship files of the same name):
    # what `load_puzzle_from_file(path)` returns must be what the reader returns for the text of THAT file, whatever was
    # loaded before (two passes, the second in another order), and `puzzle(name)` must be the default file of that name.
    def same_def(a, b):
        return a.generators_permutations == b.generators_permutations and list(a.generator_names) == list(b.generator_names) and list(a.central_state) == list(b.central_state)

    order2 = list(files)
    rng.shuffle(order2)
    for pass_no, order in enumerate((files, order2)):
        for f in order:
            if ck.enough():
                break
            try:
                got = GapPuzzles.load_puzzle_from_file(f)
                want_d = gp._parse_gap_file(open(f, encoding="utf-8").read())  # pylint: disable=protected-access
            except Exception as ex:  # pylint: disable=broad-except
                ck.violation("C16/gap/load-error", f"load_puzzle_from_file({f}) raised: {type(ex).__name__}: {ex}", {"case": {"source": f}})
                continue
            ck.evaluations += 1
            ck.count("gap:load_puzzle_from_file")
            if not same_def(got, want_d):
                ck.violation("C16/gap/load-differs", f"load_puzzle_from_file({os.path.relpath(f, REPO)}) (pass {pass_no + 1}) is not the definition written in that file", {"case": {"source": f, "loaded_before": [os.path.relpath(x, REPO) for x in order[: order.index(f)]][-5:]}})
    defaults_dir = os.path.join(REPO, "cayleypy", "puzzles", "gap_files", "defaults")
    for nm in GapPuzzles.list_puzzles():
        if ck.enough():
            break
        want_d = gp._parse_gap_file(open(os.path.join(defaults_dir, nm + ".gap"), encoding="utf-8").read())  # pylint: disable=protected-access
        for closed in (False, True):
            got = GapPuzzles.puzzle(nm, make_inverse_closed=closed)
            k = len(want_d.generators_permutations)
            ok = got.generators_permutations[:k] == want_d.generators_permutations and list(got.generator_names)[:k] == list(want_d.generator_names) \
                and list(got.central_state) == list(want_d.central_state) and (closed or len(got.generators_permutations) == k)
            ck.evaluations += 1
            if not ok:
                ck.violation("C16/gap/puzzle-differs", f"GapPuzzles.puzzle({nm!r}, make_inverse_closed={closed}) is not the shipped default definition", {"case": {"source": nm}})
    # the same file name in two directories with different contents, loaded one after the other
    import tempfile

    with tempfile.TemporaryDirectory() as td:
        for _ in range(6):
            stem = rng.choice(["p", "pyraminx", "x y", "cube"])
            texts = []
            for sub in ("a", "b"):
                n = rng.randint(3, 9)
                g = graphs.rand_perm(rng, n)
                if g[n - 1] == n - 1:
                    g = list(range(1, n)) + [0]
                os.makedirs(os.path.join(td, sub), exist_ok=True)
                txt = write_gap(rng, [g], ["A"], None)
                open(os.path.join(td, sub, stem + ".gap"), "w", encoding="utf-8").write(txt)
                texts.append(txt)
            for sub, txt in zip(("a", "b"), texts):
                got = GapPuzzles.load_puzzle_from_file(os.path.join(td, sub, stem + ".gap"))
                want_d = gp._parse_gap_file(txt)  # pylint: disable=protected-access
                ck.evaluations += 1
                ck.count("gap:same-name-two-directories")
                if not same_def(got, want_d):
                    ck.violation("C16/gap/load-differs", "two files of the same name in different directories: the second load returns the first file's definition", {"case": {"source": "synthetic", "texts": texts, "stem": stem}})
    # synthetic texts from arbitrary permutation sets and identical-piece partitions
    for _ in range(300 if not ck.thorough else 5000):
        if ck.enough():
            break
        n = rng.randint(2, 30)
        k = rng.randint(1, 5)
        gens = []
        for _ in range(k):
            p = graphs.rand_perm(rng, n) if rng.random() < 0.6 else graphs.local_perm(rng, n, rng.randint(2, min(5, n)))
            gens.append(p)
        # the reader sizes the state by the largest index that occurs in a cycle: make sure point n is moved
        if all(p[n - 1] == n - 1 for p in gens):
            gens[0][n - 1], gens[0][0] = gens[0][0], gens[0][n - 1]
            if sorted(gens[0]) != list(range(n)):
                gens[0] = list(range(1, n)) + [0]
        if any(p == list(range(n)) for p in gens):
            continue
        names = rng.sample(["A", "B", "Cw", "U2", "x1", "R_", "fL", "Q9", "m", "ZZ"], k)
        ip = None
        if rng.random() < 0.6:
            pts = list(range(1, n + 1))
            rng.shuffle(pts)
            ip, pos = [], 0
            while pos < n and rng.random() < 0.7:
                sz = rng.randint(1, min(4, n - pos))
                cls = pts[pos : pos + sz]
                ip.append(sorted(cls) if rng.random() < 0.4 else cls)  # the order inside a class carries no meaning
                pos += sz
        text = write_gap(rng, gens, names, ip)
        check_gap_text(ck, text, "synthetic", synthetic=(gens, ip))
    # generated puzzles
    for n in list(range(2, 6 if not ck.thorough else 9)) + ([11] if not ck.thorough else [10, 11, 12]):
        if ck.enough():
            break
        ck.guard(check_cube, ck, n)  # 10..12: layer numbers with two digits
    for n in range(2, 11 if not ck.thorough else 13):
        for params in get_group(n):
            check_rings(ck, params, True)
    for _ in range(150 if not ck.thorough else 3000):
        ls, rs = rng.randint(2, 14), rng.randint(2, 14)
        if rng.random() < 0.3:
            params = (ls, 0, rs, 0)
        else:
            params = (ls, rng.randint(1, max(1, ls // 2)), rs, rng.randint(1, max(1, rs // 2)))
        check_rings(ck, params, False)
    for a in range(1, 5 if not ck.thorough else 7):
        for b in range(1, 5 if not ck.thorough else 7):
            check_globe(ck, a, b)
    ck.assumptions = [
        "the GAP format = what the shipped files use: one definition per line, `M_<name>:=<cycles>;`, `ip:=[[...],...];`; whitespace inside cycles, wrapped definitions and names differing only by an inner `M_` are outside it",
        "cube structure is checked without a 3-D embedding: order, support sizes, face-visiting pattern of every sticker cycle, disjointness and commutation within an axis, whole-cube rotations map faces to faces",
    ]
    ck.finish(rule="all shipped .gap files against an independent hand-written reader + synthetic texts from random permutation sets and identical-piece partitions; cubes n = 2..5 (8 thorough) in every metric; every Hungarian-ring tuple of get_group(n), n <= 10 (12) plus random tuples; globes a, b <= 4 (6)", exhaustive=False)


if __name__ == "__main__":
    from cv.core import run_main

    run_main(main)
