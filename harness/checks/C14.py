"""C14 — a graph object answers each query as a fresh one would, whatever came before."""

import json
import os
import sys

sys.path.insert(0, os.path.join(os.path.dirname(__file__), ".."))

import numpy as np  # noqa: E402
import torch  # noqa: E402

from cv import algos, graphs  # noqa: E402
from cv.core import VERIF, Check  # noqa: E402
from cayleypy import CayleyGraph, find_path  # noqa: E402
from cayleypy.algo import MeetInTheMiddle  # noqa: E402

THEOREMS = [
    "Cv.Session.history_independent",
    "Cv.Session.history_independent_root",
    "Cv.Session.history_independent_inv",
    "Cv.Session.invariant_kept",
    "Cv.Session.imm_stable",
    "Cv.Session.copies_share_hashing",
    "Cv.Session.all_share_root",
    "Cv.Session.inverted_copy_cached",
    "Cv.C14i.session_answers_fresh",
    "Cv.C14i.session_answers_fresh_root",
    "Cv.C14i.session_caches_fresh",
    "Cv.C14i.session_ball_reuse",
    "Cv.C14i.unkeyed_cache_not_fresh",
    "Cv.C14i.unkeyed_cache_answer",
    "Cv.C14i.session_findPath_eq",
    "Cv.C14i.session_bfs_eq",
    "Cv.C14i.session_findPathTo_eq",
    "Cv.C14i.session_mitmTo_eq",
    "Cv.C14i.session_between_eq",
    "Cv.C14i.session_beam_eq",
    "Cv.C14i.session_applyPath_eq",
    "Cv.C14i.session_switchToInverted_eq",
    "Cv.C14i.session_modifiedCopy_eq",
    "Cv.C14i.session_definition_stable",
    "Cv.C14i.session_definition_stable_step",
    "Cv.C14i.session_definition_stable_root",
    "Cv.C14i.session_findPath_valid",
    "Cv.C14i.session_findPath_shortest",
]


def canon(x):
    if x is None or isinstance(x, (bool, int, str)):
        return x
    if isinstance(x, (list, tuple)):
        return [canon(v) for v in x]
    if isinstance(x, dict):
        return {str(k): canon(v) for k, v in x.items()}
    if hasattr(x, "layer_sizes"):
        return {
            "completed": bool(x.bfs_completed),
            "sizes": list(x.layer_sizes),
            "layers": {int(k): np.asarray(v).reshape(len(v), -1).tolist() for k, v in x.layers.items()},
            "hashes": [h.tolist() for h in x.layers_hashes],
            "edges": None if x.edges_list_hashes is None else x.edges_list_hashes.tolist(),
        }
    if hasattr(x, "path_found"):
        return [bool(x.path_found), int(x.path_length), x.path]
    if hasattr(x, "edges") and hasattr(x, "start_state"):
        return [canon(x.start_state), list(x.edges)]
    if hasattr(x, "tolist"):
        return np.asarray(x.cpu() if hasattr(x, "cpu") else x).tolist()
    return str(x)


def fingerprint(g):
    """Everything later operations see: definition, central state, encoding, hashing."""
    d = g.definition
    fp = {
        "gens": d.generators_permutations if d.is_permutation_group() else [m.matrix.tolist() for m in d.generators_matrices],
        "names": list(d.generator_names),
        "central_def": list(d.central_state),
        "central": g.central_state.tolist(),
        "central_hash": g.central_state_hash.tolist(),
        "enc": None if g.string_encoder is None else [g.string_encoder.w, g.string_encoder.n, g.string_encoder.encoded_length],
        "hasher_identity": g.hasher.is_identity,
        "hasher_seed": getattr(g.hasher, "seed", None),
        "vec": g.hasher.vec_hasher.reshape(-1).tolist() if hasattr(g.hasher, "vec_hasher") else None,
        "batch": g.batch_size,
    }
    return json.dumps(fp, sort_keys=True, default=str)


def gen_ops(rng, gd, orbit, ecc, inv_ok, ic):
    ops = []
    # limits a session comes back to (a cache is only interesting when the same key is asked for again)
    favourite = {} if rng.random() < 0.4 else {"max_diameter": rng.choice([1, 2, ecc, ecc + 2])}
    if rng.random() < 0.4:
        favourite["max_layer_size_to_explore"] = rng.choice([10**6, 10**5, 10**4 + 1])
    if inv_ok and rng.random() < 0.35:
        # cache stress: the same limits asked for twice with other work on the same object in between
        kw = dict(favourite)
        mid = rng.choice([
            ["bfs", {"max_diameter": rng.choice([2, ecc, 10**6]), "return_all_hashes": False, "return_all_edges": False, "max_layer_size_to_store": 1000, "disable_batching": False}, None],
            ["walks", "bfs", 3, 5, 1],
            ["beam", list(rng.choice(orbit)), 3, 2 * ecc + 2, "simple"],
            ["mitm_to", list(rng.choice(orbit)), max(1, ecc // 2)],
            ["find_path", list(rng.choice(orbit)), {"max_diameter": rng.choice([1, ecc + 3])}],
        ])
        ops += [["find_path", list(rng.choice(orbit)), kw], mid, ["find_path", list(rng.choice(orbit)), kw]]
    for _ in range(rng.randint(4, 10)):
        k = rng.random()
        s = list(rng.choice(orbit))
        if k < 0.04:
            ops.append(["apply_path_central", [rng.randrange(len(gd.gens)) for _ in range(rng.randint(2, 4))]])
        elif k < 0.2:
            ops.append(["bfs", {"max_diameter": rng.choice([1, 2, ecc, 10**6]), "return_all_hashes": rng.random() < 0.5, "return_all_edges": rng.random() < 0.3, "max_layer_size_to_store": rng.choice([None, 2, 1000]), "disable_batching": rng.random() < 0.3}, None if rng.random() < 0.5 else [s]])
        elif k < 0.3 and inv_ok:
            ops.append(["find_path_to", s, rng.choice([1, 2, ecc])])
        elif k < 0.38 and inv_ok:
            ops.append(["mitm_to", s, rng.choice([1, 2, max(1, ecc // 2)])])
        elif k < 0.46 and inv_ok:
            ops.append(["between", [s], [list(rng.choice(orbit))], rng.choice([1, 2, ecc])])
        elif k < 0.56 and inv_ok:
            kw = dict(favourite)
            if rng.random() < 0.4:
                kw = {"max_diameter": rng.choice([1, 2, ecc, ecc + 2])} if rng.random() < 0.7 else {}
                if rng.random() < 0.4:
                    kw["max_layer_size_to_explore"] = rng.choice([10**6, 10**5, 10**4 + 1])
            ops.append(["find_path", s, kw])
        elif k < 0.64:
            ops.append(["beam", s, rng.choice([1, 3, 10**6]), rng.choice([2, 3 * ecc + 2]), rng.choice(["simple", "advanced"])])
        elif k < 0.72:
            ops.append(["walks", rng.choice(["classic", "bfs", "nbt"]), rng.randint(1, 6), rng.randint(1, 8), rng.randrange(1000)])
        elif k < 0.8 and inv_ok:
            ops.append(["switch_to_inverted"])
        elif k < 0.86:
            ops.append(["modified_copy", list(rng.choice(orbit)), rng.choice(["central", "central", "inverse_closed", "inverted"])])
        elif k < 0.92:
            ops.append(["neighbors", s])
        elif k < 0.95:
            ops.append(["apply_path", s, [rng.randrange(len(gd.gens)) for _ in range(3)]])
        elif k < 0.98:
            ops.append(["apply_path_central", [rng.randrange(len(gd.gens)) for _ in range(rng.randint(2, 4))]])
        else:
            ops.append(["bfs_from_tensor", [s, list(rng.choice(orbit))], rng.choice([1, 2])])
    return ops


def run_op(g, op, rng_seed=0):
    """Executes one operation on graph object g; returns canonical output (deterministic given the torch seed)."""
    k = op[0]
    if k == "bfs":
        kw = dict(op[1])
        if op[2] is not None:
            kw["start_states"] = op[2]
        return canon(g.bfs(**kw))
    if k == "find_path_to":
        r = g.bfs(max_diameter=op[2], return_all_hashes=True)
        return canon(g.find_path_to(op[1], r))
    if k == "mitm_to":
        r = g.bfs(max_diameter=op[2], return_all_hashes=True)
        return canon(MeetInTheMiddle.find_path_to(g, op[1], r))
    if k == "between":
        return canon(MeetInTheMiddle.find_path_between(g, op[1], op[2], op[3]))
    if k == "find_path":
        return canon(find_path(g, op[1], **op[2]))
    if k == "beam":
        kw = {"start_state": op[1], "beam_width": op[2], "max_steps": op[3], "beam_mode": op[4]}
        if op[4] == "simple":
            kw["return_path"] = True
        return canon(g.beam_search(**kw))
    if k == "walks":
        torch.manual_seed(op[4])
        x, y = g.random_walks(mode=op[1], width=op[2], length=op[3])
        return [canon(x), canon(y)]
    if k == "neighbors":
        return canon(g.get_neighbors_decoded(torch.tensor([op[1]], dtype=torch.int64)))
    if k == "apply_path":
        return canon(g.apply_path(op[1], op[2]))
    if k == "apply_path_central":
        # the caller hands the graph its OWN central-state tensor (a common idiom)
        return canon(g.apply_path(g.central_state, op[1]))
    if k == "bfs_from_tensor":
        t = torch.tensor(op[1], dtype=torch.int64)
        out = canon(g.bfs(start_states=t, max_diameter=op[2]))
        assert t.tolist() == op[1], "the caller's tensor was modified"
        return out
    raise ValueError(k)


def run_case(ck: Check, case: dict):
    gd = graphs.GDef.from_json(case["gd"])
    cfg, ops = case["cfg"], case["ops"]
    seeded = cfg.get("random_seed") is not None
    st, g = algos.call(lambda: gd.graph(**cfg))
    if st != "ok":
        ck.count("skipped:constructor")
        return
    origin = g
    cur_def = lambda gg: gg.definition  # noqa: E731
    ck.case(["session", gd.key(), cfg, ops], True, sample={"gd_tag": gd.tag, "cfg": cfg, "ops": [o[0] for o in ops]})
    ck.traces += 1
    fp_origin = fingerprint(origin)
    cur = g
    for i, op in enumerate(ops):
        ck.count("op:" + op[0])
        rep = {"case": dict(case, ops=ops[: i + 1]), "failing_op_index": i, "op": op}
        if op[0] == "switch_to_inverted":
            st, nxt = algos.call(lambda: cur.with_inverted_generators)  # pylint: disable=cell-var-from-loop
            if st != "ok":
                ck.violation("C14/inverted-copy-error", "with_inverted_generators raised: " + nxt, rep)
                return
            # copies share hashing and encoding with their origin
            probe = cur.central_state.reshape(1, -1)
            if nxt.hasher is not cur.hasher or nxt.string_encoder is not cur.string_encoder or nxt.hasher.make_hashes(nxt.encode_states(probe)).tolist() != cur.hasher.make_hashes(cur.encode_states(probe)).tolist():
                ck.violation("C14/copy-does-not-share-hashing", "inverted copy does not share hasher/encoder with its origin", rep)
                return
            cur = nxt
            continue
        if op[0] == "modified_copy":
            how = op[2] if len(op) > 2 else "central"
            fp_cur = fingerprint(cur)
            try:
                new_def = cur.definition.with_central_state(op[1]) if how == "central" else cur.definition.make_inverse_closed() if how == "inverse_closed" else cur.definition.with_inverted_generators()
            except (AssertionError, np.linalg.LinAlgError):
                ck.count("modified_copy: derived definition not constructible (no integer inverse)")
                continue
            if fingerprint(cur) != fp_cur or fingerprint(origin) != fp_origin:
                ck.violation("C14/mutation/derive-definition", f"deriving a definition ({how}) changed the definition of the graph it was derived from", rep)
                return
            st, nxt = algos.call(lambda: cur.modified_copy(new_def))  # pylint: disable=cell-var-from-loop
            if st != "ok":
                ck.violation("C14/modified-copy-error", "modified_copy raised: " + nxt, rep)
                return
            # a copy must answer like a fresh graph of the new definition (same configuration)
            st1, a = algos.call(lambda: canon(nxt.bfs(max_diameter=3).layer_sizes))  # pylint: disable=cell-var-from-loop
            st2, b = algos.call(lambda: canon(CayleyGraph(new_def, **cfg).bfs(max_diameter=3).layer_sizes))
            if st1 != "ok" or a != b:
                ck.violation("C14/modified-copy-differs", f"BFS on a modified copy differs from a fresh graph of the same definition: {a} vs {b}", rep)
                return
            st3, states = algos.call(lambda: canon(nxt.bfs(max_diameter=1, max_layer_size_to_store=None).layers))  # pylint: disable=cell-var-from-loop
            st4, states2 = algos.call(lambda: canon(CayleyGraph(new_def, **cfg).bfs(max_diameter=1, max_layer_size_to_store=None).layers))
            if st3 != "ok" or {k: sorted(map(tuple, v)) for k, v in states.items()} != {k: sorted(map(tuple, v)) for k, v in states2.items()}:
                ck.violation("C14/modified-copy-differs", "layers of a modified copy differ from a fresh graph of the same definition", rep)
                return
            cur = nxt
            continue
        fp_before = fingerprint(cur)
        st, out = algos.call(lambda: run_op(cur, op))  # pylint: disable=cell-var-from-loop
        # fresh object of the same definition and configuration
        d = cur_def(cur)
        fresh_cfg = dict(cfg)
        if cur.string_encoder is not None:
            fresh_cfg["bit_encoding_width"] = cur.string_encoder.w
        elif d.is_permutation_group():
            fresh_cfg["bit_encoding_width"] = None
        st2, out2 = algos.call(lambda: run_op(CayleyGraph(d, **fresh_cfg), op))  # pylint: disable=cell-var-from-loop
        if fingerprint(cur) != fp_before or fingerprint(origin) != fp_origin:
            ck.violation(f"C14/mutation/{op[0]}", f"operation {op[0]} changed the definition / central state / encoding / hashing seen by later operations", rep)
            return
        if op[0] == "beam" and not seeded and not cur.hasher.is_identity and op[2] < 10**5:
            # a pruned beam on an unseeded graph keeps different rows in the two objects (hash order): one may find the
            # target (and then need inverse generators to restore the path) while the other does not — not comparable
            ck.count("pruned beam on an unseeded graph: not comparable")
            continue
        if st != st2:
            ck.violation(f"C14/history-dependence/{op[0]}/error", f"operation {op[0]} behaves differently after the history than on a fresh graph: {str(out)[:150]} vs {str(out2)[:150]}", rep)
            return
        if st != "ok":
            ck.count("op-raised-on-both (out of domain)")
            continue
        if op[0] == "find_path":
            # the cache key the model predicts (Session.Limits.key) is the one the object holding the ball carries
            holder = cur if cur.definition.generators_inverse_closed else cur.with_inverted_generators
            key = getattr(holder, "_bfs_result_for_find_path_key", None)
            mk = ck.driver().ask(f"session.key {op[2].get('max_layer_size_to_explore', -1)} {op[2].get('max_diameter', -1)}")
            if key is None or " ".join(map(str, key)) != mk:
                ck.correspondence_break("find_path cache key differs from the session model's Limits.key", {"op": op, "impl": key, "model": mk})
        a, b = out, out2
        if op[0] == "walks" and op[1] != "classic" and not seeded and not cur.hasher.is_identity:
            # thinning picks rows in hash order: with an unseeded hasher the two objects legitimately select different
            # states; these modes are judged through their guarantees (C07), here only the shapes are compared
            ck.count("walks on an unseeded graph: guarantees only")
            if len(a[1]) == 0 or a[1][0] != 0 or b[1][0] != 0:
                ck.violation("C14/history-dependence/walks-shape", "walk output malformed after the history", rep)
                return
            continue
        if not seeded or (cur is not origin and not cur.hasher.is_identity and cur.hasher is not None and not seeded):
            a, b = strip_hashes(a), strip_hashes(b)
            if not cur.hasher.is_identity and op[0] in ("find_path_to", "mitm_to", "between", "find_path", "beam"):
                # which of several equally short paths (middle state, start of the pair) is returned follows the hash
                # order; an unseeded hasher differs between the two objects, so only found / length is comparable (the
                # paths themselves are judged by C04 / C05 / C06 / C12)
                def path_shape(o):
                    if o is None:
                        return None
                    if op[0] == "beam":
                        # a pruned beam keeps the first rows in hash order among equal scores: only an unpruned one is comparable
                        return [o[0], o[1] if o[0] else None] if op[2] >= 10**5 else "pruned beam (not comparable)"
                    if op[0] == "between" or (isinstance(o, list) and len(o) == 2 and isinstance(o[1], list) and o and isinstance(o[0], list)):
                        return len(o[1])
                    return len(o)

                a, b = path_shape(a), path_shape(b)
                ck.count("paths on an unseeded graph: found / length only")
        elif cur is not origin:
            # copy shares the ORIGIN's hasher; a fresh graph of the copy's definition with the same seed has the same hasher parameters
            pass
        if a != b:
            a2, b2 = strip_hashes(a), strip_hashes(b)
            if a2 == b2 and cur is not origin:
                ck.count("hash-values differ between copy and fresh graph of the copy's definition (vec_hasher depends on state_size only; tolerated)")
                continue
            ck.violation(f"C14/history-dependence/{op[0]}", f"operation {op[0]} returns something else after the history than on a freshly constructed graph", dict(rep, after_history=str(a)[:300], fresh=str(b)[:300]))
            return


def strip_hashes(x):
    """Canonical form without hash values / hash-induced order (for unseeded graphs)."""
    if isinstance(x, dict) and "sizes" in x:
        return {"completed": x["completed"], "sizes": x["sizes"], "layers": {k: sorted(map(tuple, v)) for k, v in x["layers"].items()}, "n_hashes": len(x["hashes"]), "n_edges": None if x["edges"] is None else len(x["edges"])}
    return x


def gen_case(ck):
    rng = ck.rng
    for _ in range(300):
        gd = graphs.gen_def(rng, mat_share=0.2)
        inv_ok = gd.kind == "perm" or gd.inverse_candidates() is not None
        layers = gd.brute_layers(cap=600)
        if layers is None or len(layers) < 3:
            continue
        orbit = [s for l in layers for s in l]
        cfg = graphs.gen_cfg(rng, gd)
        if rng.random() < 0.8 and cfg.get("random_seed") is None:
            cfg["random_seed"] = rng.choice([0, 1, 7])
        if rng.random() < 0.2:
            cfg["memory_limit_gb"] = 1e-9  # documented as safe; the library then frees memory inside every BFS step
        ic = None
        return {"gd": gd.to_json(), "cfg": cfg, "ops": gen_ops(rng, gd, orbit, len(layers) - 1, inv_ok, ic)}
    raise RuntimeError("no case")


def main():
    ck = Check("C14")
    if ck.replay:
        body = json.load(open(os.path.join(VERIF, ck.replay) if not os.path.isabs(ck.replay) else ck.replay))
        ck.guard(run_case, ck, body["case"])
        ck.finish(rule="replay of one recorded operation sequence")
    ck.lean_obligations(["CvProps.C14", "CvProps.C14i"], THEOREMS)
    for case in json.load(open(os.path.join(VERIF, "harness", "corpus", "C14.json"))):
        ck.guard(run_case, ck, case)
        ck.count("corpus")
    for _ in range(70 if not ck.thorough else 2000):
        if ck.enough():
            break
        ck.guard(run_case, ck, gen_case(ck))
    ck.assumptions = [
        "randomised operations are compared exactly under an identical torch seed set immediately before the operation on both objects (graph construction reseeds the global generator)",
        "for unseeded graphs hash values legitimately differ between objects; outputs are compared without hash values",
    ]
    ck.finish(rule="random operation sequences (4-10 operations: BFS with options, path queries, MITM, set-to-set, find_path with varying limits, both beam modes, the three walk modes, neighbours, apply_path, switching to the inverted copy, modified copies) on one graph object and its copies; every output compared with a freshly constructed graph of the same definition, configuration and seed; definition / central state / encoder / hasher fingerprinted before and after every operation")


if __name__ == "__main__":
    from cv.core import run_main

    run_main(main)
