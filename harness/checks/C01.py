"""C01 — BFS layers are exactly the distance classes, for every internal configuration."""

import json
import os
import sys

sys.path.insert(0, os.path.join(os.path.dirname(__file__), ".."))

from cv import bfsrun, graphs  # noqa: E402
from cv.core import VERIF, Check  # noqa: E402

THEOREMS = [
    "Cv.absSt_spec",
    "Cv.refLayers_spec",
    "Cv.refLayers_orbit",
    "Cv.window2_sound",
    "Cv.bfs_layers_eq_dist",
    "Cv.bfs_completes",
    "Cv.bfs_config_independent",
    "Cv.C01e.distLayer_transport",
    "Cv.C01e.distLayer_transport_lift",
    "Cv.C01e.compiled_routine_encode",
    "Cv.C01e.encoded_orbit_encodings",
    "Cv.C01e.encode_injective",
    "Cv.C01e.encoded_bfs_layers_eq_dist",
    "Cv.C01e.encoded_bfs_layers_eq_dist_orbit",
    "Cv.C01e.encoded_bfs_layers_eq_dist_invClosed",
    "Cv.C01e.encoded_bfs_single_word",
    "Cv.C01e.encoded1d_bfs_eq",
    "Cv.C01e.encoded_bfs_completes",
    "Cv.C01e.plain_bfs_layers_eq_dist",
    "Cv.C01e.encoded_bfs_width_independent",
    "Cv.C01e.encoded_bfs_eq_plain",
    "Cv.C01m.matGraph_act_eq",
    "Cv.C01m.matGraph_act_eq_any",
    "Cv.C01m.matGraph_act_eq_modulo0",
    "Cv.C01m.matGraph_act_ne_of_overflow",
    "Cv.C01m.apply_batch_int64_eq_model",
    "Cv.C01m.apply_batch_int64_sum_eq_model",
    "Cv.C01m.apply_batch_int64_eq_model_modulo0",
    "Cv.C01m.mat_bfs_layers_eq_dist",
    "Cv.C01m.mat_bfs_layers_eq_dist_invClosed",
    "Cv.C01m.mat_bfs_completes",
    "Cv.C01m.mat_bfs_layers_eq_dist_modulo0",
]


def expected_from_spec(layers, opts):
    opts = bfsrun.with_defaults(opts)
    limit = opts.get("max_layer_size_to_store", 1000) or 10**15
    sizes = [len(l) for l in layers]
    last = len(layers) - 1
    stored = {i: sorted(l) for i, l in enumerate(layers) if i == 0 or len(l) <= limit or i == last}
    return {
        "sizes": sizes,
        "completed": True,
        "stored": stored,
        "n_hashes": len(layers) if opts.get("return_all_hashes") else 0,
        "hash_lens": sizes if opts.get("return_all_hashes") else [],
        "diameter": last,
        "num_vertices": sum(sizes),
    }


KEYS = ["sizes", "completed", "stored", "n_hashes", "hash_lens", "diameter", "num_vertices"]


def run_case(ck: Check, case: dict, record=True):
    """Judges one case on the implementation against the Spec oracle; also runs the model."""
    gd = graphs.GDef.from_json(case["gd"])
    cfg, opts, starts = case["cfg"], case["opts"], case.get("starts")
    drv = ck.driver()
    r = gd.send(drv)
    if isinstance(r[0], str):
        ck.correspondence_break("model rejects a definition the generator considers valid", {"case": case, "model": r[0]})
        return
    starts_packed = [gd.pack(s) for s in starts] if starts is not None else [gd.pack(gd.central)]
    layers = bfsrun.spec_layers(drv, starts_packed)
    exp = expected_from_spec(layers, opts)
    impl = bfsrun.run_impl(gd, cfg, opts, starts=starts, limit_s=20 + sum(exp['sizes']) // 50)
    mod = bfsrun.run_model(drv, gd, cfg, opts, starts_packed)
    nontrivial = len(layers) >= 2 and sum(exp["sizes"]) >= 3
    if record:
        ck.case(["C01", gd.key(), cfg, opts, starts], nontrivial, sample={"gd": gd.to_json(), "cfg": cfg, "opts": opts, "sizes": exp["sizes"]})
        ck.traces += 1
        ck.count("kind:" + gd.kind)
        ck.count("tag:" + gd.tag.split("-")[0])
        ck.count("width:" + str(cfg.get("bit_encoding_width", "auto")))
        ck.count("batched" if (not opts.get("return_all_edges") and not opts.get("disable_batching") and max(exp["sizes"]) > cfg.get("batch_size", 2**20)) else "unbatched")
        ck.count("inverse_closed:" + str(r[0]))
        ck.count("orbit<=10" if sum(exp["sizes"]) <= 10 else "orbit<=100" if sum(exp["sizes"]) <= 100 else "orbit>100")
    # model vs spec (driver glue / model drift)
    dm = bfsrun.compare(mod, exp, ["sizes", "completed", "stored", "n_hashes", "hash_lens"])
    if dm:
        ck.correspondence_break("model bfs differs from Spec oracle (model or driver defect)", {"case": case, "keys": dm})
    # implementation vs spec: the property itself
    if "error" in impl:
        ck.violation(
            signature="C01/error/" + impl["error"].split(":")[0] + "/w=" + str(cfg.get("bit_encoding_width", "auto")),
            what="BFS raised on an input inside the property's domain: " + impl["error"],
            replay={"case": case, "expected": {k: exp[k] for k in ["sizes", "completed"]}, "observed": impl["error"]},
        )
        return
    di = bfsrun.compare(impl, exp, KEYS)
    if impl["events"]:
        di.append("events")
    if not impl["hashes_match_layers"]:
        di.append("hashes_match_layers")
    if di:
        ck.violation(
            signature="C01/" + "+".join(di) + "/" + gd.kind + "/w=" + str(cfg.get("bit_encoding_width", "auto")),
            what=f"BFS result differs from the distance classes on {di}",
            replay={
                "case": case,
                "differs_on": di,
                "expected": {k: exp[k] for k in ["sizes", "completed", "diameter", "num_vertices"]},
                "observed": {k: impl[k] for k in ["sizes", "completed", "diameter", "num_vertices", "events"]},
            },
        )
        return
    # implementation vs model: the correspondence
    dc = bfsrun.compare(impl, mod, ["sizes", "completed", "stored", "n_hashes", "hash_lens"])
    if dc:
        ck.correspondence_break("implementation and model bfs differ", {"case": case, "keys": dc})


def gen_case(ck: Check, cap: int):
    rng = ck.rng
    for _ in range(200):
        gd = graphs.gen_def(rng)
        layers = gd.brute_layers(cap=cap)
        if layers is None:
            continue
        if sum(len(l) for l in layers) < 8 and rng.random() < 0.85:
            continue
        cfg = graphs.gen_cfg(rng, gd)
        big = max(len(l) for l in layers)
        if big > 400 and cfg["batch_size"] < big // 40:
            cfg["batch_size"] = rng.choice([big // 40 + 1, big // 7 + 1, big + 1])
        opts = {
            "max_layer_size_to_store": rng.choice([None, 1, 3, 1000]),
            "return_all_hashes": rng.random() < 0.5,
            "return_all_edges": rng.random() < 0.25,
            "disable_batching": rng.random() < 0.25,
        }
        starts = None
        if rng.random() < 0.4:
            orbit = [s for l in layers for s in l]
            k = rng.randint(1, min(4, len(orbit)))
            starts = [list(rng.choice(orbit)) for _ in range(k)]
            if rng.random() < 0.5:
                starts.append(list(starts[0]))
        return {"gd": gd.to_json(), "cfg": cfg, "opts": opts, "starts": starts}
    raise RuntimeError("no case")


def main():
    ck = Check("C01")
    if ck.replay:
        body = json.load(open(os.path.join(VERIF, ck.replay) if not os.path.isabs(ck.replay) else ck.replay))
        if "replay" in body or "case" in body:
            ck.guard(run_case, ck, body.get("case") or body["replay"]["case"])
        ck.finish(rule="replay of one recorded case")
    ck.lean_obligations(["CvProps.C01", "CvProps.C01e", "CvProps.C17", "CvProps.C01m"], THEOREMS)
    # corpus first
    corpus = json.load(open(os.path.join(VERIF, "harness", "corpus", "C01.json")))
    for case in corpus:
        ck.guard(run_case, ck, case)
        ck.count("corpus")
    n_defs = 60 if not ck.thorough else 350
    cap = 1500 if not ck.thorough else 8000
    for _ in range(n_defs):
        if ck.enough():
            break
        base = gen_case(ck, cap)
        ck.guard(run_case, ck, base)
        # the same definition under other internal configurations must give the same canonical answer
        gd = graphs.GDef.from_json(base["gd"])
        for _ in range(2 if not ck.thorough else 4):
            other = dict(base, cfg=graphs.gen_cfg(ck.rng, gd))
            other["opts"] = dict(base["opts"], disable_batching=ck.rng.random() < 0.3, return_all_edges=ck.rng.random() < 0.2)
            ck.guard(run_case, ck, other)
    # directed graphs with 67..140 layers in which every old layer is re-entered from a later one: bookkeeping of the
    # seen layers that only changes after dozens of layers (merging, pruning) is exercised here
    for _ in range(3 if not ck.thorough else 15):
        if ck.enough():
            break
        gd = graphs.many_layer_directed_def(ck.rng)
        cfg = graphs.gen_cfg(ck.rng, gd)
        cfg["batch_size"] = ck.rng.choice([2, 7, 2**20])
        opts = {"max_layer_size_to_store": ck.rng.choice([None, 1000]), "return_all_hashes": ck.rng.random() < 0.5, "return_all_edges": False, "disable_batching": ck.rng.random() < 0.3}
        ck.guard(run_case, ck, {"gd": gd.to_json(), "cfg": cfg, "opts": opts, "starts": None})
        ck.count("many-layer-directed")
    # one-word states that fill all 64 bits, with the extreme codes (int64 max / min, -1) inside the orbit
    for _ in range(5 if not ck.thorough else 40):
        if ck.enough():
            break
        gd, w = graphs.full_word_def(ck.rng)
        cfg = graphs.gen_cfg(ck.rng, gd)
        cfg["bit_encoding_width"] = ck.rng.choice([w, w, "auto" if max(gd.central) == 2**w - 1 else w])
        opts = {"max_layer_size_to_store": ck.rng.choice([None, 1000]), "return_all_hashes": ck.rng.random() < 0.5, "return_all_edges": False, "disable_batching": ck.rng.random() < 0.3}
        starts = None if ck.rng.random() < 0.7 else [list(gd.central), list(gd.central[1:] + gd.central[:1])]
        ck.guard(run_case, ck, {"gd": gd.to_json(), "cfg": cfg, "opts": opts, "starts": starts})
        ck.count("full-word graphs")
    # matrix groups under a large modulus with entries just below it (products and row sums cross 2^24, 2^53, 2^63)
    for _ in range(8 if not ck.thorough else 60):
        if ck.enough():
            break
        gd = graphs.large_modulus_mat_def(ck.rng)
        cfg = graphs.gen_cfg(ck.rng, gd)
        opts = {"max_layer_size_to_store": ck.rng.choice([None, 1000]), "return_all_hashes": ck.rng.random() < 0.5, "return_all_edges": False, "disable_batching": ck.rng.random() < 0.3}
        ck.guard(run_case, ck, {"gd": gd.to_json(), "cfg": cfg, "opts": opts, "starts": None})
        ck.count("large-modulus matrix graphs")
    ck.assumptions = [
        "hash injective on the explored set (hook H2 reports any equal-hash/different-state event; none tolerated)",
        "orbits capped for the correspondence; the theorems are unbounded",
    ]
    ck.finish(
        rule="definitions from cv.graphs.gen_def (named families, random, local shuffles on multi-word states, closed/non-closed, matrices) x random internal configurations x output options; "
        "non-trivial = at least 2 layers and 3 vertices; distinct by canonical (definition, config, options, starts)"
    )


if __name__ == "__main__":
    from cv.core import run_main

    run_main(main)
