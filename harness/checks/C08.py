"""C08 — the explicit graph exported from a BFS equals the true Schreier graph."""

import json
import os
import sys
from collections import Counter

sys.path.insert(0, os.path.join(os.path.dirname(__file__), ".."))

import numpy as np  # noqa: E402

from cv import algos, graphs  # noqa: E402
from cv.core import VERIF, Check  # noqa: E402
from cayleypy import BfsResult  # noqa: E402

THEOREMS = [
    "Cv.edgeGen_spec",
    "Cv.adjacency_symm_iff",
    "Cv.storeLimit_none",
    "Cv.export_complete",
    "Cv.export_partial",
    "Cv.export_needs_store",
    "Cv.C08e.encoded_edgeGen_spec",
    "Cv.C08e.plain_edgeGen_spec",
    "Cv.C08e.encoded_export_complete",
    "Cv.C08e.encoded_export_adjacency_symm",
    "Cv.C08e.encoded_export_partial",
    "Cv.C08e.encoded_export_partial_exact",
    "Cv.C08e.encoded_export_needs_store",
    "Cv.C08e.plain_export_complete",
    "Cv.C08e.plain_export_adjacency_symm",
    "Cv.C08e.plain_export_partial",
    "Cv.C08e.plain_export_partial_exact",
    "Cv.C08e.plain_export_needs_store",
    "Cv.C08e.single_word_export_complete",
    "Cv.C08e.single_word_export_partial",
    "Cv.C08e.single_word_export_partial_exact",
    "Cv.C08e.single_word_export_needs_store",
]


def run_case(ck: Check, case: dict):
    gd = graphs.GDef.from_json(case["gd"])
    cfg, maxd = case["cfg"], case["max_diameter"]
    xstarts = [list(x) for x in (case.get("starts") or [])]
    ctx = algos.Ctx(ck, gd, cfg, cap=600, extra_states=xstarts)
    if not ctx.ok:
        ck.count("skipped:" + ctx.reason.split(":")[0])
        return
    g = ctx.g
    kw = {"return_all_edges": True, "return_all_hashes": True, "max_layer_size_to_store": None}
    if xstarts:
        # several start states, one of them listed twice: layer 0 is the SET of start states
        kw["start_states"] = [list(gd.central)] + xstarts + [xstarts[0]]
        ck.count("multi-start")
    if maxd is not None:
        kw["max_diameter"] = maxd
    st, r = algos.call(g.bfs, **kw)
    rep = {"case": case}
    ck.case(["export", gd.key(), cfg, maxd], True, sample={"gd_tag": gd.tag, "kind": gd.kind, "cfg": cfg, "max_diameter": maxd, "vertices": len(ctx.states)})
    ck.traces += 1
    ck.count("kind:" + gd.kind)
    if st != "ok":
        ck.violation("C08/bfs-error", "BFS with edges raised: " + r, rep)
        return
    layers = ctx.layers if not xstarts else ctx.spec_layers([gd.pack(gd.central)] + [gd.pack(x) for x in xstarts])  # Spec distance classes (packed)
    completed = maxd is None or maxd >= len(layers)
    ck.count("completed" if completed else "early-stopped")
    if bool(r.bfs_completed) != completed:
        ck.violation("C08/completed-flag", "completion flag differs from the truth", rep)
        return
    if case.get("via_file") and gd.kind == "perm":
        # the same result after BfsResult.save / BfsResult.load: its exports must be the same explicit graph
        import tempfile

        from cayleypy import BfsResult

        with tempfile.TemporaryDirectory(prefix="cvC08") as td:
            r.save(os.path.join(td, "r.h5"))
            st2, r2 = algos.call(BfsResult.load, os.path.join(td, "r.h5"))
        if st2 != "ok":
            ck.violation("C08/load-error", "loading the saved result raised: " + r2, rep)
            return
        r = r2
        ck.count("result passed through save/load")
    k = len(r.layer_sizes)
    # a history of earlier exports on the same object (any order, any subset): later exports must not depend on it
    pre_nx = None
    for nm in case.get("pre", []):
        try:
            if nm == "nx_undirected":
                if r.graph.generators_inverse_closed and completed and len(ctx.states) <= 200:
                    pre_nx = r.to_networkx_graph()
            elif nm == "nx_directed":
                if completed and len(ctx.states) <= 200:
                    r.to_networkx_graph(directed=True, with_labels=False)
            elif nm in ("adjacency_matrix", "adjacency_matrix_sparse"):
                getattr(r, nm)()
            else:
                getattr(r, nm)
        except (AssertionError, ValueError, KeyError) as ex:
            ck.violation("C08/export-error", f"export {nm} raised: {type(ex).__name__}: {ex}", rep)
            return
        ck.count("pre:" + nm)
    try:
        all_states = r.all_states
        names = r.vertex_names
        el = r.edges_list
        adj = r.adjacency_matrix()
        sp = r.adjacency_matrix_sparse().toarray()
    except (AssertionError, ValueError, KeyError) as ex:
        ck.violation("C08/export-error", f"export raised: {type(ex).__name__}: {ex}", rep)
        return
    rows = gd.pack_rows(all_states)
    verts = [s for l in layers[:k] for s in l]
    if sorted(rows) != sorted(verts) or len(set(rows)) != len(rows):
        ck.violation("C08/vertices", "exported vertex set is not the (explored part of the) orbit", dict(rep, exported=len(rows), expected=len(verts)))
        return
    # row i is the state whose hash is the i-th layer hash; name i names that state
    flat_h = [int(h) for hs in r.layers_hashes for h in hs.tolist()]
    if flat_h != [ctx.hash_of[s] for s in rows]:
        ck.violation("C08/row-hash-order", "row i of all_states is not the state whose hash is the i-th layer hash", rep)
        return
    size = len(gd.central)
    st_rows = np.asarray(all_states).reshape(-1, size).tolist()
    for i in (0, len(rows) // 2, len(rows) - 1):
        if gd.kind == "perm":
            want = ("" if max(st_rows[i]) <= 9 else ",").join(str(int(x)) for x in st_rows[i])
            if names[i] != want:
                ck.violation("C08/vertex-name", "vertex name does not spell the state it stands for", dict(rep, index=i, name=names[i], expected=want))
                return
    idx = {s: i for i, s in enumerate(rows)}
    # expected edge multiset over vertices of non-final layers (all vertices when completed)
    src_layers = layers[:k] if completed else layers[: k - 1]
    E = Counter()
    for l in src_layers:
        for s in l:
            t = tuple(gd.unpack(s))
            for gi in range(len(gd.gens)):
                E[(idx[s], idx[gd.pack(gd.act(gi, t))])] += 1
    got = Counter((int(a), int(b)) for a, b in el.tolist())
    if completed:
        if got != E:
            ck.violation("C08/edges", "edge list is not exactly the pairs (v, g(v)) over all vertices and generators", dict(rep, missing=list((E - got).items())[:5], extra=list((got - E).items())[:5]))
            return
    else:
        missing = E - got
        extra = got - E
        bad_extra = [e for e in extra if (e[1], e[0]) not in E]
        if missing or bad_extra:
            ck.violation("C08/edges-early-stop", "early-stopped export misses an out-edge of a non-final layer or has an entry that is not a reversal of such an edge", dict(rep, missing=list(missing.items())[:5], bad_extra=bad_extra[:5]))
            return
    pat = {(a, b) for (a, b) in got}
    A = {(i, j) for i, j in zip(*np.nonzero(adj))}
    S = {(i, j) for i, j in zip(*np.nonzero(sp))}
    if A != pat or S != pat:
        ck.violation("C08/adjacency", "dense or sparse adjacency matrix differs from the edge list", dict(rep, dense_only=list(A - pat)[:5], sparse_only=list(S - pat)[:5]))
        return
    if completed:
        undirected = all((b, a) in E for (a, b) in E)
        if bool((adj == adj.T).all()) != undirected:
            ck.violation("C08/symmetry", "adjacency matrix symmetric although the graph is directed (or conversely)", rep)
            return
        ck.count("undirected" if undirected else "directed")
    # edge labels: name a generator that maps source to target
    gnames = r.graph.generator_names
    for a, b in [e for e in got if e in E][:: max(1, len(got) // 12)]:
        try:
            nm = r.get_edge_name(a, b)
        except AssertionError as ex:
            ck.violation("C08/edge-name-error", f"get_edge_name raised for a real edge: {ex}", dict(rep, edge=[a, b]))
            return
        ok = any(gnames[i] == nm and gd.pack(gd.act(i, tuple(gd.unpack(rows[a])))) == rows[b] for i in range(len(gd.gens)))
        if not ok and (a, b) in E:
            ck.violation("C08/edge-name", "edge label does not name a generator mapping the source to the target", dict(rep, edge=[a, b], label=nm))
            return
    # networkx export
    if completed and len(rows) <= 200:
        try:
            nx = r.to_networkx_graph(directed=True)
            nxe = {(names.index(u) if names.count(u) == 1 else None, names.index(v) if names.count(v) == 1 else None) for u, v in nx.edges()}
            if len(set(names)) == len(names) and nxe != pat:
                ck.violation("C08/networkx", "networkx graph edges differ from the edge list", dict(rep, nx_only=list(nxe - pat)[:5], missing=list(pat - nxe)[:5]))
                return
            ck.count("networkx")
        except (AssertionError, ImportError) as ex:
            ck.count("networkx-skipped:" + type(ex).__name__)
    # undirected networkx export (inverse-closed only): its edges are the unordered pairs of the edge list
    if completed and len(rows) <= 200 and r.graph.generators_inverse_closed and len(set(names)) == len(names):
        nxu = pre_nx if pre_nx is not None else r.to_networkx_graph()
        pos = {nm: i for i, nm in enumerate(names)}
        und = {frozenset((pos[u], pos[v])) for u, v in nxu.edges()}
        if und != {frozenset(e) for e in pat} or sorted(nxu.nodes()) != sorted(names):
            ck.violation("C08/networkx-undirected", "undirected networkx graph differs from the edge list", dict(rep, nx_edges=len(und), expected=len({frozenset(e) for e in pat})))
            return
        ck.count("networkx-undirected")
    # every export read again after all the others: same answers (exports share cached arrays)
    again = {"edges_list": r.edges_list, "adjacency_matrix": r.adjacency_matrix(), "adjacency_matrix_sparse": r.adjacency_matrix_sparse().toarray(), "all_states": r.all_states, "vertex_names": r.vertex_names}
    first = {"edges_list": el, "adjacency_matrix": adj, "adjacency_matrix_sparse": sp, "all_states": all_states, "vertex_names": names}
    for nm in again:
        same = Counter(map(tuple, np.asarray(again[nm]).tolist())) == got if nm == "edges_list" else np.array_equal(np.asarray(again[nm]), np.asarray(first[nm]))
        if not same:
            ck.violation("C08/unstable-export", f"{nm} changed after other exports of the same result were requested", dict(rep, export=nm))
            return
    # model: same BFS with the implementation's hashes -> same numbering and edge list
    start_packed = [gd.pack(gd.central)] + [gd.pack(x) for x in xstarts] + ([gd.pack(xstarts[0])] if xstarts else [])
    m = ctx.drv.ask(f"export {maxd if maxd is not None else 1000000} ; {' '.join(map(str, start_packed))}")
    mc, ms, me = [x.strip() for x in m.split(";")]
    if ms == "none" or me == "none":
        ck.correspondence_break("export model returns none where the implementation exports", dict(rep, model=m[:100]))
        return
    mrows = [int(x) for x in ms.split()]
    medges = Counter(tuple(int(y) for y in e.split(",")) for e in me.split())
    if mrows != rows or (mc == "1") != completed:
        ck.correspondence_break("export: model and implementation number the vertices differently", dict(rep, model_rows=mrows[:20], impl_rows=rows[:20], model_completed=mc, completed=completed, asked=start_packed))
    elif medges != got:
        ck.correspondence_break("export: model and implementation edge lists differ", dict(rep, model_only=list((medges - got).items())[:5], impl_only=list((got - medges).items())[:5]))
    ev = graphs.drain_events()
    if ev:
        ck.violation("C08/events", "library event during export: " + str(ev[0])[:100], dict(rep, events=[str(e)[:200] for e in ev[:3]]))


def parallel_edges_def(rng):
    """Coset graphs in which one vertex reaches the same target under 100-300 generators (all transpositions of 17..26
    points acting on a word with one or two marked positions): multiplicities around 128 and 256."""
    n = rng.choice([17, 18, 18, 24, 26])
    gens = []
    for i in range(n):
        for j in range(i + 1, n):
            p = list(range(n))
            p[i], p[j] = j, i
            gens.append(p)
    rng.shuffle(gens)
    central = [0] * n
    central[rng.randrange(n)] = 1
    return graphs.GDef("perm", gens, central, tag="parallel-edges")


def gen_case(ck):
    rng = ck.rng
    for _ in range(400):
        r0 = rng.random()
        gd = parallel_edges_def(rng) if r0 < 0.04 else graphs.deep_directed_def(rng) if r0 < 0.12 else graphs.gen_def(rng, mat_share=0.25)
        layers = gd.brute_layers(cap=300 if not ck.thorough else 3000)
        if layers is None or len(layers) < 2:
            continue
        ecc = len(layers) - 1
        maxd = None if rng.random() < 0.55 else rng.randint(1, ecc)
        cfg = graphs.gen_cfg(rng, gd)
        pre = [x for x in ["nx_undirected", "nx_directed", "adjacency_matrix", "adjacency_matrix_sparse", "edges_list", "vertex_names", "all_states"] if rng.random() < 0.4]
        rng.shuffle(pre)
        starts = None
        if rng.random() < 0.25:
            orbit = [list(x) for l in layers for x in l]   # brute_layers returns tuples
            starts = [list(x) for x in rng.sample(orbit, min(len(orbit), rng.randint(1, 3)))]
            lay2 = gd.brute_layers(starts=[tuple(gd.central)] + [tuple(x) for x in starts], cap=300 if not ck.thorough else 3000)
            if lay2 is None or len(lay2) < 2:
                starts = None
            else:
                maxd = None if maxd is None else rng.randint(1, len(lay2) - 1)
        return {"gd": gd.to_json(), "cfg": cfg, "max_diameter": maxd, "pre": pre, "starts": starts, "via_file": rng.random() < (0.5 if gd.tag.startswith("deep") else 0.15)}
    raise RuntimeError("no case")


def main():
    ck = Check("C08")
    if ck.replay:
        body = json.load(open(os.path.join(VERIF, ck.replay) if not os.path.isabs(ck.replay) else ck.replay))
        ck.guard(run_case, ck, body["case"])
        ck.finish(rule="replay of one recorded case")
    ck.lean_obligations(["CvProps.C08", "CvProps.C08e"], THEOREMS)
    for case in json.load(open(os.path.join(VERIF, "harness", "corpus", "C08.json"))):
        ck.guard(run_case, ck, case)
        ck.count("corpus")
    for _ in range(110 if not ck.thorough else 3000):
        if ck.enough():
            break
        ck.guard(run_case, ck, gen_case(ck))
    for _ in range(2 if not ck.thorough else 12):
        if ck.enough():
            break
        gd = parallel_edges_def(ck.rng)
        ck.guard(run_case, ck, {"gd": gd.to_json(), "cfg": graphs.gen_cfg(ck.rng, gd), "max_diameter": None, "pre": [], "via_file": False})
        ck.count("parallel-edges graphs")
    ck.assumptions = ["scipy coo_array and networkx are modelled, not verified (compared with the dense matrix / edge list)", "hash injective on the orbit"]
    ck.finish(rule="generated definitions with small orbits (permutation and matrix, inverse-closed or not) x encodings x completed / early-stopped (max_diameter 1..ecc); x a random history of earlier exports on the same result object (any subset, any order); expected edge multiset computed from the Spec distance classes and plain-Python generator action; every export re-read at the end")


if __name__ == "__main__":
    from cv.core import run_main

    run_main(main)
