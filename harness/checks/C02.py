"""C02 — generator action and state codec match the mathematical definition."""

import ast
import json
import math
import os
import re
import sys

sys.path.insert(0, os.path.join(os.path.dirname(__file__), ".."))

import numpy as np  # noqa: E402
import torch  # noqa: E402

from cv import graphs  # noqa: E402
from cv.core import REPO, VERIF, Check  # noqa: E402
from cayleypy.string_encoder import StringEncoder  # noqa: E402
from cayleypy import MatrixGenerator  # noqa: E402

THEOREMS = [
    "Cv.C02.Stmt.eval_bit",
    "Cv.C02.checkProg_sound",
    "Cv.C02.checkProg_sound_1d",
    "Cv.C02.decode_encode",
    "Cv.C02.encode_bit",
    "Cv.C02.encode_bit_padding",
    "Cv.C02.permuteBits_action",
    "Cv.C02.autoWidth_spec",
    "Cv.C02.generated_routine_action",
    "Cv.C02.compile_accepted",
    "Cv.C02.compiled_routine_action",
    "Cv.C02.compiled_routine_1d",
    "Cv.C01m.matGraph_act_eq_any",
    "Cv.C01m.matGraph_act_eq_modulo0",
    "Cv.C01m.apply_batch_int64_eq_model",
    "Cv.C01m.apply_batch_int64_sum_eq_model",
    "Cv.C01m.apply_batch_int64_eq_model_modulo0",
]
M64 = (1 << 64) - 1


def U(x):
    return int(x) & M64


def S64(x):
    x &= M64
    return x - (1 << 64) if x >> 63 else x


def _const(node):
    """integer constant (possibly negated) or None"""
    try:
        v = ast.literal_eval(node)
    except (ValueError, SyntaxError):
        return None
    return v if isinstance(v, int) and not isinstance(v, bool) else None


def _word_ref(node, var):
    """`x[:, k]` (2-D) or plain `x` (1-D) -> source word index, else None"""
    if isinstance(node, ast.Name) and node.id == var:
        return 0
    if isinstance(node, ast.Subscript) and isinstance(node.value, ast.Name) and node.value.id == var:
        sl = node.slice
        if isinstance(sl, ast.Tuple) and len(sl.elts) == 2 and isinstance(sl.elts[0], ast.Slice):
            return _const(sl.elts[1])
    return None


def _parse_term(node, var):
    """(word & MASK) [<< k | >> k] [& POST]  ->  (src, mask, shl, shr, post) or None (structural, whitespace/paren tolerant)"""
    post = None
    if isinstance(node, ast.BinOp) and isinstance(node.op, ast.BitAnd) and _const(node.right) is not None and not (_word_ref(node.left, var) is not None):
        post = U(_const(node.right))
        node = node.left
    shl = shr = 0
    if isinstance(node, ast.BinOp) and isinstance(node.op, (ast.LShift, ast.RShift)) and _const(node.right) is not None:
        if isinstance(node.op, ast.LShift):
            shl = _const(node.right)
        else:
            shr = _const(node.right)
        node = node.left
    if isinstance(node, ast.BinOp) and isinstance(node.op, ast.BitAnd):
        src, mask = _word_ref(node.left, var), _const(node.right)
        if src is None:
            src, mask = _word_ref(node.right, var), _const(node.left)
        if src is not None and mask is not None and shl >= 0 and shr >= 0 and not (shl and shr):
            return src, U(mask), shl, shr, post
    return None


def _or_terms(node):
    if isinstance(node, ast.BinOp) and isinstance(node.op, ast.BitOr):
        return _or_terms(node.left) + _or_terms(node.right)
    return [node]


def parse_routine(src: str):
    """Generated source text -> IR [(src, dst, mask, shl, shr, post)], or None when it does not fit the statement
    grammar `y[:,d] |= (x[:,s] & M) [<<k | >>k] [& P]` / `lambda x: t1 | t2 | ...` (parsed with `ast`)."""
    try:
        tree = ast.parse(src)
    except SyntaxError:
        return None
    out = []
    if len(tree.body) == 1 and isinstance(tree.body[0], ast.FunctionDef):
        fn = tree.body[0]
        if len(fn.args.args) != 2:
            return None
        xv, yv = fn.args.args[0].arg, fn.args.args[1].arg
        for st in fn.body:
            if isinstance(st, ast.Pass):
                continue
            if not (isinstance(st, ast.AugAssign) and isinstance(st.op, ast.BitOr)):
                return None
            dst = _word_ref(st.target, yv)
            if dst is None:
                return None
            for t in _or_terms(st.value):
                term = _parse_term(t, xv)
                if term is None:
                    return None
                out.append((term[0], dst, term[1], term[2], term[3], term[4]))
        return out
    if len(tree.body) == 1 and isinstance(tree.body[0], ast.Assign) and isinstance(tree.body[0].value, ast.Lambda):
        lam = tree.body[0].value
        if len(lam.args.args) != 1:
            return None
        xv = lam.args.args[0].arg
        for t in _or_terms(lam.body):
            term = _parse_term(t, xv)
            if term is None or term[0] != 0:
                return None
            out.append((0, 0, term[1], term[2], term[3], term[4]))
        return out
    return None


def stmt_line(s):
    return f"{s[0]} {s[1]} {s[2]} {s[3]} {s[4]} {'-' if s[5] is None else s[5]}"


def words_line(ws):
    return " ".join(str(U(v)) for v in ws)


def spec_permute_bits(p, w, n, L, x):
    """Bit-level specification, in plain Python: output bit t is input bit p[t//w]*w + t%w."""
    xs = [U(v) for v in x]
    out = [0] * L
    for t in range(n * w):
        sp = p[t // w] * w + t % w
        if (xs[sp // 64] >> (sp % 64)) & 1:
            out[t // 64] |= 1 << (t % 64)
    return out


def structured_words(rng, L, n_bits):
    pats = [[0] * L, [M64] * L, [0x5555555555555555] * L, [1 << 63] * L, [1] * L]
    for _ in range(3):
        pats.append([rng.getrandbits(64) for _ in range(L)])
    t = rng.randrange(n_bits)
    one = [0] * L
    one[t // 64] = 1 << (t % 64)
    pats.append(one)
    return pats


def perm_family(rng, n):
    r = rng.random()
    if r < 0.15:
        return list(range(n))
    if r < 0.3:
        return list(range(n))[::-1]
    if r < 0.45:
        k = rng.randrange(n)
        return [(i + k) % n for i in range(n)]
    if r < 0.6 and n >= 2:
        p = list(range(n))
        i, j = rng.sample(range(n), 2)
        p[i], p[j] = p[j], p[i]
        return p
    return graphs.rand_perm(rng, n)


def src_bit(st, b):
    """Python twin of Stmt.srcBit: which source bit feeds output bit b of one statement (None = none)."""
    _s, _d, mask, shl, shr, post = st
    if shl > 0:
        j = b - shl if shl <= b else None
    elif shr > 0:
        j = b + shr if b + shr < 64 else 63
    else:
        j = b
    if j is None:
        return None
    if (mask >> j) & 1 and (post is None or (post >> b) & 1):
        return j
    return None


def witness_inputs(prog, p, w, n, L):
    """When the checker rejects a parsed routine: inputs on which the routine (if the parse is faithful) must differ
    from the bit permutation — one word pattern per wrong contributor / missing contributor."""
    out = []
    for d in range(L):
        for b in range(64):
            t = d * 64 + b
            cs = {(st[0], src_bit(st, b)) for st in prog if st[1] == d and src_bit(st, b) is not None}
            want = set()
            if t < n * w:
                sp = p[t // w] * w + t % w
                want = {(sp // 64, sp % 64)}
            for word, bit in (cs ^ want):
                x = [0] * L
                if word < L:
                    x[word] = 1 << bit
                    out.append(x)
            if len(out) > 12:
                return out
    return out


def basis_test(f, p, w, n, L, one_d):
    """Executes the real routine on the zero input and on all 64*L single-bit inputs in one batched call.  A routine built
    from `& constant`, shifts and `|` distributes over bitwise OR, so for such routines this test is EXHAUSTIVE:
    f(x) = f(0) | OR_i f(e_i).  Returns None or a failing input (list of words)."""
    xs = [[0] * L] + [[(1 << b) if d == word else 0 for word in range(L)] for d in range(L) for b in range(64)]
    if one_d:
        arr = np.array([S64(r[0]) for r in xs], dtype=np.int64)
        ys = [[int(v)] for v in f(arr)]
    else:
        xt = torch.tensor([[S64(v) for v in r] for r in xs], dtype=torch.int64)
        yt = torch.zeros_like(xt)
        f(xt, yt)
        ys = yt.tolist()
    # expected image of a single input bit g: the output bit t with srcPos(t) = g (none for padding bits)
    dest = {}
    for t in range(n * w):
        dest[p[t // w] * w + t % w] = t
    if any(U(v) for v in ys[0]):
        return xs[0]
    for g in range(64 * L):
        want = [0] * L
        if g in dest:
            want[dest[g] // 64] = 1 << (dest[g] % 64)
        if [U(v) for v in ys[g + 1]] != want:
            return xs[g + 1]
    return None


def check_routine(ck: Check, w, n, p, one_d):
    drv = ck.driver()
    enc = StringEncoder(code_width=w, n=n)
    L = enc.encoded_length
    f = enc.implement_permutation_1d(p) if one_d else enc.implement_permutation(p)
    src = getattr(f, "__cv_source__", None)
    case = {"w": w, "n": n, "p": p, "one_d": one_d}
    ck.programs += 1
    ck.case(["routine", w, n, p, one_d], n >= 2, sample={"w": w, "n": n, "p": p, "one_d": one_d, "source": (src or "")[:300]})
    ck.count(f"routine:{'1d' if one_d else '2d'}")
    ck.count("words:" + str(min(L, 4)) + ("+" if L > 4 else ""))
    ck.count("signbit" if enc.uses_sign_bit else "nosignbit")
    prog = parse_routine(src) if src else None
    certified = False
    if prog is None:
        ck.correspondence_break("generated routine does not fit the statement grammar (hook H1 / translator)", {"case": case, "source": (src or "<no __cv_source__>")[:500]})
    else:
        pl = " ".join(map(str, p))
        sl = " ; ".join(stmt_line(s) for s in prog)
        chk = drv.ask(f"prog.check {w} {n} ; {pl} ; {sl}") if prog else "0"
        certified = chk == "1"
        ck.obligation(f"certificate: checkProg accepts the routine generated for w={w} n={n} {'1d' if one_d else '2d'} p#{hash(tuple(p)) & 0xffff:x}", certified, "" if certified else {"case": case})
        comp = drv.ask(f"prog.compile {w} {n} ; {pl}")
        if comp != " | ".join(stmt_line(s) for s in prog):
            ck.correspondence_break("generated routine differs from the model compiler's output", {"case": case, "model": comp[:400], "impl": sl[:400]})
    bad = basis_test(f, p, w, n, L, one_d)
    ck.evaluations += 64 * L + 1
    if bad is not None:
        ck.violation(
            signature=f"C02/routine/{'1d' if one_d else '2d'}/w={w}",
            what="generated bit-permutation routine differs from the permutation on a single-bit input",
            replay={"case": case, "input_words": bad, "expected": spec_permute_bits(p, w, n, L, bad)},
        )
        return False
    # execute the real routine on structured + random words against the bit-level specification;
    # when the certificate failed, first on the witnesses the rejected output bits imply (targeted search)
    targeted = witness_inputs(prog, p, w, n, L) if (prog is not None and not certified) else []
    for x in targeted + structured_words(ck.rng, L, n * w):
        xs = [S64(v) for v in x]
        if one_d:
            y = [int(f(np.array([xs[0]], dtype=np.int64))[0])]
        else:
            xt = torch.tensor([xs], dtype=torch.int64)
            yt = torch.zeros_like(xt)
            f(xt, yt)
            y = yt[0].tolist()
        want = spec_permute_bits(p, w, n, L, x)
        ck.evaluations += 1
        if [U(v) for v in y] != want:
            ck.violation(
                signature=f"C02/routine/{'1d' if one_d else '2d'}/w={w}",
                what="generated bit-permutation routine differs from the permutation on some input",
                replay={"case": case, "input_words": [U(v) for v in x], "expected": want, "observed": [U(v) for v in y]},
            )
            return
        if prog is not None:
            if one_d:
                ev = [int(drv.ask(f"prog.eval1d ; {U(x[0])} ; " + " ; ".join(stmt_line(s) for s in prog)))]
            else:
                ev = [int(v) for v in drv.ask(f"prog.eval {L} ; {words_line(x)} ; " + " ; ".join(stmt_line(s) for s in prog)).split()]
            if ev != [U(v) for v in y]:
                ck.correspondence_break("model interpreter and real routine differ on the parsed program", {"case": case, "input": [U(v) for v in x]})
    return certified


def check_codec(ck: Check, w, n, rows):
    drv = ck.driver()
    enc = StringEncoder(code_width=w, n=n)
    case = {"w": w, "n": n, "rows": rows}
    try:
        e = enc.encode(torch.tensor(rows, dtype=torch.int64))
        d = enc.decode(e)
    except (AssertionError, OverflowError, RuntimeError) as ex:
        ck.violation(f"C02/codec/error/w={w}", f"encode/decode raised on encodable states: {type(ex).__name__}: {ex}", {"case": case})
        return
    ck.case(["codec", w, n, rows], True, sample={"w": w, "n": n, "row0": rows[0][:8]})
    ck.count("codec:w=" + str(w))
    if d.tolist() != rows:
        ck.violation(f"C02/codec/roundtrip/w={w}", "decode(encode(s)) != s", {"case": case, "observed": d.tolist()})
        return
    # every batch size: each row on its own and a few sub-batches must encode to the same words
    whole = e.tolist()
    singles = list(range(len(rows)))[-5:] + [0]
    for lo, hi_ in [(i, i + 1) for i in singles] + [(1, len(rows))]:
        if hi_ > len(rows) or lo >= hi_:
            continue
        try:
            sub = enc.encode(torch.tensor(rows[lo:hi_], dtype=torch.int64))
            back = enc.decode(sub).tolist()
        except (AssertionError, OverflowError, RuntimeError) as ex:
            ck.violation(f"C02/codec/error/w={w}", f"encode/decode raised on a sub-batch: {type(ex).__name__}: {ex}", {"case": dict(case, rows=rows[lo:hi_])})
            return
        ck.evaluations += 1
        if sub.tolist() != whole[lo:hi_] or back != rows[lo:hi_]:
            ck.violation(f"C02/codec/batch-dependence/w={w}", "encoding a row depends on the batch it is encoded with (or its round trip fails)", {"case": dict(case, rows=rows[lo:hi_]), "alone": sub.tolist(), "in_batch": whole[lo:hi_], "decoded": back})
            return
    for r, er in zip(rows, e.tolist()):
        m = drv.ask(f"enc {w} {n} ; {' '.join(map(str, r))}")
        if m != words_line(er):
            ck.correspondence_break("encode: model and implementation differ", {"case": case, "model": m[:200], "impl": words_line(er)[:200]})
            return
        m2 = drv.ask(f"dec {w} {n} ; {words_line(er)}")
        if m2 != " ".join(map(str, r)):
            ck.correspondence_break("decode: model and implementation differ", {"case": case})
            return


def check_action(ck: Check, gd: graphs.GDef, cfg, rows, path):
    """get_neighbors_decoded and apply_path against the defined action (plain Python) and the model."""
    drv = ck.driver()
    case = {"gd": gd.to_json(), "cfg": cfg, "rows": rows, "path": path}
    try:
        g = gd.graph(**cfg)
        nb = g.get_neighbors_decoded(torch.tensor(rows, dtype=torch.int64))
        ap = g.apply_path(torch.tensor(rows, dtype=torch.int64), path)
    except (AssertionError, OverflowError, RuntimeError, IndexError) as ex:
        ck.violation(f"C02/action/error/{gd.kind}/w={cfg.get('bit_encoding_width', 'auto')}", f"action raised: {type(ex).__name__}: {ex}", {"case": case})
        return
    size = len(gd.central)
    nb = np.asarray(nb).reshape(-1, size).tolist()
    ap = np.asarray(ap).reshape(-1, size).tolist()
    want_nb = [list(gd.act(i, r)) for i in range(len(gd.gens)) for r in rows]
    want_ap = []
    for r in rows:
        s = tuple(r)
        for i in path:
            s = gd.act(i, s)
        want_ap.append(list(s))
    ck.case(["action", gd.key(), cfg, rows, path], True, sample={"kind": gd.kind, "cfg": cfg, "row0": rows[0][:8], "path": path})
    ck.count("action:" + gd.kind + ":w=" + str(cfg.get("bit_encoding_width", "auto")))
    if nb != want_nb:
        ck.violation(f"C02/action/neighbors/{gd.kind}/w={cfg.get('bit_encoding_width', 'auto')}", "get_neighbors_decoded differs from the defined action", {"case": case, "expected": want_nb[:6], "observed": nb[:6]})
        return
    if ap != want_ap:
        ck.violation(f"C02/action/apply_path/{gd.kind}", "apply_path differs from composing the actions in order", {"case": case, "expected": want_ap[:6], "observed": ap[:6]})
        return
    # derived copies (same generators on another central state; inverted generators) must act by the defined action too
    if gd.kind == "perm":
        try:
            narrow = [min(v, 1) for v in gd.central]
            gc = g.modified_copy(g.definition.with_central_state(narrow))
            gi = g.with_inverted_generators
            t = torch.tensor([narrow, list(gd.central)], dtype=torch.int64)
            nb_c = np.asarray(gc.get_neighbors_decoded(t)).reshape(-1, size).tolist()
            nb_i = np.asarray(gi.get_neighbors_decoded(t)).reshape(-1, size).tolist()
        except (AssertionError, OverflowError, RuntimeError, IndexError) as ex:
            ck.violation(f"C02/action/copy-error/w={cfg.get('bit_encoding_width', 'auto')}", f"action on a derived copy raised: {type(ex).__name__}: {ex}", {"case": case})
            return
        rows2 = [narrow, list(gd.central)]
        want_c = [list(gd.act(i, r)) for i in range(len(gd.gens)) for r in rows2]
        inv = graphs.GDef("perm", [graphs.inv_perm(p) for p in gd.gens], gd.central)
        want_i = [list(inv.act(i, r)) for i in range(len(gd.gens)) for r in rows2]
        ck.evaluations += 2
        if nb_c != want_c or nb_i != want_i:
            ck.violation(f"C02/action/derived-copy/w={cfg.get('bit_encoding_width', 'auto')}", "a derived copy (modified central state / inverted generators) does not act by the defined action", {"case": case, "copy_ok": nb_c == want_c, "inverted_ok": nb_i == want_i})
            return
    # model: action through the driver
    if gd.kind == "perm":
        for i, p in enumerate(gd.gens[:2]):
            m = drv.ask(f"permute ; {' '.join(map(str, p))} ; {' '.join(map(str, rows[0]))}")
            if m != " ".join(map(str, want_nb[i * len(rows)])):
                ck.correspondence_break("permuteList differs from the plain-Python action", {"case": case})
    else:
        B = gd.B
        for i, M in enumerate(gd.gens[:2]):
            m = drv.ask(f"mat.apply {B} {gd.n} {gd.m} ; {' '.join(str(x % B) for x in M)} ; {' '.join(str(x % B) for x in rows[0])}")
            if m != " ".join(str(x % B) for x in want_nb[i * len(rows)]):
                ck.correspondence_break("Matrix.apply (model) differs from exact integer arithmetic", {"case": case, "model": m})


def check_matrix_kernel(ck: Check, n, m, modulo, M, S):
    """MatrixGenerator.apply / apply_batch_torch against exact integer arithmetic."""
    case = {"n": n, "m": m, "modulo": modulo, "M": M, "S": S}
    g = MatrixGenerator.create(np.array(M, dtype=np.int64).reshape(n, n), modulo)
    Mr = [int(x) for x in g.matrix.reshape(-1)]
    want = []
    for r in range(n):
        for c in range(m):
            v = sum(Mr[r * n + j] * S[j * m + c] for j in range(n))
            want.append(v % modulo if modulo > 0 else S64(v))
    a = g.apply(np.array(S, dtype=np.int64).reshape(n, m)).reshape(-1).tolist()
    b = g.apply_batch_torch(torch.tensor(S, dtype=torch.int64).reshape(1, n, m)).reshape(-1).tolist()
    ck.case(["mat", n, m, modulo, M, S], True, sample={"n": n, "m": m, "modulo": modulo})
    ck.count("mat:mod=" + ("0" if modulo == 0 else "2^31" if modulo == 2**31 else "2^31-1" if modulo == 2**31 - 1 else "small"))
    if a != want or b != want:
        ck.violation(f"C02/matrix/mod={'0' if modulo == 0 else 'big' if modulo > 2**20 else 'small'}/n={n}", "matrix action differs from M*S reduced mod m / wrapped", {"case": case, "expected": want, "apply": a, "apply_batch_torch": b})
        return
    B = modulo if modulo > 0 else 1 << 64
    mm = ck.driver().ask(f"mat.apply {B} {n} {m} ; {' '.join(str(x % B) for x in Mr)} ; {' '.join(str(x % B) for x in S)}")
    if mm != " ".join(str(x % B) for x in want):
        ck.correspondence_break("Matrix.apply (model) differs from exact integer arithmetic", {"case": case})
    # the int64 rendering of apply_batch_torch (theorems C01m.apply_batch_int64_eq_model*: equal to the exact model when
    # (m-1)^2 < 2^63 and n(m-1) < 2^63, and for modulo 0 always)
    m64 = ck.driver().ask(f"mat.apply64 {modulo} {n} {m} ; {' '.join(map(str, Mr))} ; {' '.join(map(str, S))}")
    if m64.split() != [str(x) for x in b]:
        ck.correspondence_break("matActInt64 (int64 model of apply_batch_torch) differs from the implementation", {"case": case, "model": m64[:300], "impl": b})


def check_mixed_moduli(ck: Check):
    """A matrix-group definition whose generators carry different moduli (nothing forbids it): applying generator i
    reduces by generator i's modulus.  States are reduced modulo every positive modulus involved."""
    from cayleypy import CayleyGraph, CayleyGraphDef

    rng = ck.rng
    n, m = rng.choice([2, 2, 3]), rng.choice([1, 2])
    mods = [rng.choice([0, 2, 3, 5, 7, 10, 2**31 - 1]) for _ in range(rng.randint(2, 3))]
    lo = min([x for x in mods if x > 0] or [50])
    mats = [[rng.randrange(-3, 4) if md == 0 else rng.randrange(md) for _ in range(n * n)] for md in mods]
    rows = [[rng.randrange(lo) for _ in range(n * m)] for _ in range(3)]
    case = {"kind": "mixed-moduli", "n": n, "m": m, "mods": mods, "mats": mats, "rows": rows}
    gens = [MatrixGenerator.create(np.array(M, dtype=np.int64).reshape(n, n), md) for M, md in zip(mats, mods)]
    ck.case(["mixed-moduli", n, m, mods, mats, rows], len(set(mods)) > 1, sample={"op": "mixed moduli", "mods": mods})
    ck.count("matrix: generators with " + ("different" if len(set(mods)) > 1 else "equal") + " moduli")
    try:
        g = CayleyGraph(CayleyGraphDef.for_matrix_group(generators=gens, central_state=rows[0]), device="cpu")
        nb = np.asarray(g.get_neighbors_decoded(torch.tensor(rows, dtype=torch.int64))).reshape(-1, n * m).tolist()
    except (AssertionError, ValueError, RuntimeError) as ex:
        ck.count("matrix: mixed moduli rejected by the library (" + type(ex).__name__ + ")")
        return
    want = []
    for M, md in zip(mats, mods):
        Mr = [v % md for v in M] if md > 0 else M
        for S in rows:
            out = [sum(Mr[r * n + j] * S[j * m + c] for j in range(n)) for r in range(n) for c in range(m)]
            want.append([v % md if md > 0 else S64(v) for v in out])
    if nb != want:
        ck.violation("C02/matrix/mixed-moduli", "a generator of a definition with several moduli does not act as M*S reduced by its own modulus", {"case": case, "expected": want[:6], "observed": nb[:6]})


def auto_width_expr():
    """The expression the constructor uses for bit_encoding_width='auto', read from the source."""
    tree = ast.parse(open(os.path.join(REPO, "cayleypy", "cayley_graph.py"), encoding="utf-8").read())
    for node in ast.walk(tree):
        if isinstance(node, ast.If) and isinstance(node.test, ast.Compare) and isinstance(node.test.left, ast.Name):
            if node.test.left.id == "bit_encoding_width" and isinstance(node.test.comparators[0], ast.Constant) and node.test.comparators[0].value == "auto":
                st = node.body[0]
                if isinstance(st, ast.Assign):
                    return compile(ast.Expression(st.value), "<autowidth>", "eval")
    return None


class _FakeTensor:
    def __init__(self, m):
        self.m = m

    def max(self):
        return self.m


class _FakeSelf:
    def __init__(self, m):
        self.central_state = _FakeTensor(m)


def check_auto_width(ck: Check):
    code = auto_width_expr()
    if code is None:
        ck.correspondence_break("translator: the 'auto' width expression was not found in cayley_graph.py", {})
        return
    drv = ck.driver()
    ms = list(range(0, 2**12 if not ck.thorough else 2**16)) + [v for k in range(1, 63) for v in (2**k - 1, 2**k, 2**k + 1)]
    bad = None
    for m in ms:
        real = eval(code, {"math": math, "int": int, "max": max, "self": _FakeSelf(m)})  # pylint: disable=eval-used
        want = max(1, m.bit_length())
        ck.evaluations += 1
        if real != want and bad is None:
            bad = (m, real, want)
        mod = int(drv.ask(f"autowidth {m}"))
        if mod != want:
            ck.correspondence_break("autoWidth (model) differs from the exact bit length", {"m": m, "model": mod})
            break
    ck.count("autowidth-values", len(ms))
    if bad is not None and bad[0] < 2**40:
        ck.violation("C02/autowidth", "auto width is not the least width able to hold the largest value", {"case": {"max_value": bad[0]}, "observed": bad[1], "expected": bad[2]})
    elif bad is not None:
        ck.count("autowidth-float-inexact-above-2^40 (first at max=%d)" % bad[0])


def main():
    ck = Check("C02")
    rng = ck.rng
    ck.lean_obligations(["CvProps.C02", "CvProps.C01m"], THEOREMS)
    if ck.replay:
        body = json.load(open(os.path.join(VERIF, ck.replay) if not os.path.isabs(ck.replay) else ck.replay))
        c = body["case"]
        if "one_d" in c:
            check_routine(ck, c["w"], c["n"], c["p"], c["one_d"])
        elif "rows" in c and "gd" in c:
            check_action(ck, graphs.GDef.from_json(c["gd"]), c["cfg"], c["rows"], c["path"])
        elif "rows" in c:
            check_codec(ck, c["w"], c["n"], c["rows"])
        elif "M" in c:
            check_matrix_kernel(ck, c["n"], c["m"], c["modulo"], c["M"], c["S"])
        else:
            check_auto_width(ck)
        ck.finish(level="proof", rule="replay of one recorded case")
    for case in json.load(open(os.path.join(VERIF, "harness", "corpus", "C02.json"))):
        ck.count("corpus")
        if case["kind"] == "codec":
            check_codec(ck, case["w"], case["n"], case["rows"])
        elif case["kind"] == "matrix":
            check_matrix_kernel(ck, case["n"], case["m"], case["modulo"], case["M"], case["S"])
        elif case["kind"] == "action":
            check_action(ck, graphs.GDef.from_json(case["gd"]), case["cfg"], case["rows"], case["path"])
    widths = [1, 2, 3, 4, 5, 6, 7, 8, 15, 16, 21, 31, 32, 33, 62, 63, 64]
    n_rout = 220 if not ck.thorough else 4000
    for _ in range(n_rout):
        if ck.enough():
            break
        w = rng.choice(widths)
        per_word = max(1, 64 // w)
        k = rng.choice([1, 1, 2, 3, 4])
        n = max(1, k * per_word + rng.choice([-1, 0, 0, 1, 2]))
        if n * w > 330:
            n = max(1, 320 // w)
        p = perm_family(rng, n)
        check_routine(ck, w, n, p, one_d=False)
        if n * w <= 64:
            check_routine(ck, w, n, p, one_d=True)
        hi = min(2**w, 2**63)
        rows = [[0] * n, [hi - 1] * n]
        one = [0] * n
        one[rng.randrange(n)] = hi - 1
        rows.append(one)
        rows += [[rng.choice([0, hi - 1, rng.randrange(hi)]) for _ in range(n)] for _ in range(3)]
        # powers of two and their neighbours (every bit position of the width, largest value first)
        ks = sorted({w - 1, w - 2, rng.randrange(w), rng.randrange(w)} & set(range(0, min(w, 63))))
        for k in ks:
            for v in (2**k, 2**k + 1, 2**k - 1, 2**k + rng.randrange(2 ** max(k - 40, 0) + 1)):
                if 0 <= v < hi:
                    r = [rng.choice([0, 1, v]) for _ in range(n)]
                    r[rng.randrange(n)] = v
                    rows.append(r)
        check_codec(ck, w, n, rows)
    # routines of the same width and length whose permutations are easily confused (equal when the entries are written
    # without separators, equal as sets of moved points, one the prefix-shift of the other): compiled one after the
    # other in this process, each judged on its own
    for _ in range(6 if not ck.thorough else 120):
        if ck.enough():
            break
        n = rng.randint(11, 40)
        w = rng.choice([max(1, (n - 1).bit_length()), 6, 7])
        t = rng.choice([x for x in range(10, n) if x // 10 != x % 10])
        d1, d2 = t // 10, t % 10
        if 2**w < n:
            w = (n - 1).bit_length()
        rest = [x for x in range(n) if x not in (d1, d2, t)]
        rng.shuffle(rest)
        at = rng.randrange(len(rest) + 1)
        pa = rest[:at] + [d1, d2, t] + rest[at:]
        pb = rest[:at] + [t, d1, d2] + rest[at:]
        for p in (pa, pb, pa):
            check_routine(ck, w, n, p, one_d=False)
            if n * w <= 64:
                check_routine(ck, w, n, p, one_d=True)
        ck.count("routine pairs with equal separator-free spelling")
    # end-to-end action on graphs (encoded with several widths, un-encoded, matrices)
    for _ in range(60 if not ck.thorough else 1500):
        if ck.enough():
            break
        gd = graphs.gen_def(rng, mat_share=0.3)
        cfg = graphs.gen_cfg(rng, gd)
        size = len(gd.central)
        if gd.kind == "perm":
            mw = cfg.get("bit_encoding_width")
            hi = max(gd.central) + 1 if mw in (None, "auto") else min(2**mw, 2**63, 2**40)
            if mw is None:
                hi = 2**31
            rows = [list(gd.central)] + [[rng.randrange(hi) for _ in range(size)] for _ in range(3)]
            if mw == "auto":
                rows = [list(gd.central)] + [rng.sample(gd.central, size) for _ in range(3)]
        else:
            hi = gd.modulo if gd.modulo > 0 else 2**20
            rows = [list(gd.central)] + [[rng.randrange(hi) for _ in range(size)] for _ in range(3)]
            if gd.modulo == 0:
                rows.append([rng.randrange(-(2**62), 2**62) for _ in range(size)])
        path = [rng.randrange(len(gd.gens)) for _ in range(rng.randint(0, 6))]
        check_action(ck, gd, cfg, rows, path)
    # matrix kernels incl. moduli near 2^31 and wrap-around
    for _ in range(80 if not ck.thorough else 3000):
        if ck.enough():
            break
        n = rng.choice([1, 2, 3, 4, 5, 8, 9, 12, 16])
        m = rng.choice([1, 2, n])
        # moduli: small, the documented extremes, and values around the int64 overflow boundary n*(m-1)^2 = 2^63
        boundary = int((2**63 / n) ** 0.5)
        modulo = rng.choice([0, 2, 3, 10, 2**31 - 1, 2**31, 2**31 - 1, 65537, 2**30 - 1, 2**30 - 35, 2**29 + 3, min(2**31, boundary + rng.randint(-3, 3)), min(2**31, boundary + boundary // 7), min(2**31, max(2, boundary - boundary // 9))])
        if modulo > 0:
            M = [rng.choice([0, 1, modulo - 1, rng.randrange(modulo)]) for _ in range(n * n)]
            S = [rng.choice([0, 1, modulo - 1, rng.randrange(modulo)]) for _ in range(n * m)]
        else:
            M = [rng.choice([0, 1, -1, rng.randrange(-(2**40), 2**40)]) for _ in range(n * n)]
            S = [rng.choice([0, 1, -1, 2**62, rng.randrange(-(2**62), 2**62)]) for _ in range(n * m)]
        check_matrix_kernel(ck, n, m, modulo, M, S)
    # int64 overflow boundary n*(m-1)^2 = 2^63: all-maximal entries for every n up to 16 around it and at the documented extremes
    for n in range(1, 17):
        if ck.enough():
            break
        boundary = int((2**63 / n) ** 0.5)
        mods = {2**31, 2**31 - 1, 2**30, 2**30 - 1, 2**30 - 35, 2**29 + 3, 2**28 + 1} | {min(2**31, max(2, boundary + d)) for d in (-2, -1, 0, 1, 2, boundary // 5, -(boundary // 5))}
        for modulo in sorted(mods) if ck.thorough else rng.sample(sorted(mods), 5):
            for m in (1, 2):
                check_matrix_kernel(ck, n, m, modulo, [modulo - 1] * (n * n), [modulo - 1] * (n * m))
                ck.count("matrix-overflow-boundary")
    # float boundaries (2^24 single, 2^53 double): moduli around 2^k, k = 20..31, entries just below m of both parities
    for k in range(20, 32):
        if ck.enough():
            break
        for modulo in (2**k, 2**k - 1, 2**k - 3) if ck.thorough or 24 <= k <= 27 else (rng.choice([2**k, 2**k - 1, 2**k - 3]),):
            for n in (2, 3, 5) if ck.thorough else (rng.choice([3, 3, 4, 5, 6]),):
                M = [modulo - rng.choice([1, 1, 2, 3, 4, 5]) for _ in range(n * n)]
                S = [modulo - rng.choice([1, 1, 2, 3, 4, 5]) for _ in range(n * 2)]
                check_matrix_kernel(ck, n, 2, modulo, M, S)
                ck.count("matrix-float-boundary")
    # a generator keeps standing for the matrix it was created from when the caller goes on using its own array
    for _ in range(6 if not ck.thorough else 100):
        if ck.enough():
            break
        n, modulo = rng.choice([2, 3, 4]), rng.choice([0, 7, 11, 2**31 - 1])
        base = [rng.randrange(-3, 4) for _ in range(n * n)]
        buf = np.array(base, dtype=np.int64).reshape(n, n)
        case = {"kind": "work-buffer", "n": n, "modulo": modulo, "matrix": base}
        g1 = MatrixGenerator.create(buf, modulo)
        buf[rng.randrange(n), rng.randrange(n)] += 5  # the caller edits its buffer and builds the next generator
        MatrixGenerator.create(buf, rng.choice([0, 5, 13]))
        S = [rng.randrange(modulo or 9) for _ in range(n)]
        Mr = [v % modulo for v in base] if modulo else base
        want = [sum(Mr[r * n + j] * S[j] for j in range(n)) for r in range(n)]
        want = [v % modulo if modulo else S64(v) for v in want]
        got = g1.apply_batch_torch(torch.tensor(S, dtype=torch.int64).reshape(1, n, 1)).reshape(-1).tolist()
        ck.case(["work-buffer", n, modulo, base, S], True, sample={"op": "generator from a caller-owned int64 array that is edited afterwards"})
        ck.count("matrix: caller's work buffer")
        if got != want:
            ck.violation("C02/matrix/caller-buffer", "a matrix generator no longer acts as the matrix it was created from after the caller edited its own array", {"case": case, "state": S, "expected": want, "observed": got})
    # generators with different moduli in one definition: each acts with its own modulus
    for _ in range(6 if not ck.thorough else 100):
        if ck.enough():
            break
        ck.guard(check_mixed_moduli, ck)
    check_auto_width(ck)
    ck.assumptions = [
        "IEEE log2 in the 'auto' width is modelled, not verified: compared with the exact bit length for every max in [0, 2^12] (2^16 thorough) and 2^k-1, 2^k, 2^k+1, k<=62 (float inexactness for max >= 2^40 is counted, not judged: the central state's entries are below its length n, and n >= 2^40 is not reachable; first observed at max = 2^49)",
        "parse of the generated source (regular expression) is trusted; it is cross-checked by executing the real routine against the interpreted IR",
    ]
    ck.finish(
        level="proof",
        rule="grid of widths {1..8,15,16,21,31,32,33,62,63,64} x lengths around multiples of 64/w x permutation families {identity, reversal, rotation, transposition, random}; "
        "every generated routine is certified by the proven-sound checker (all inputs) and executed on structured words; codec on zeros/all-max/single-max/random rows; "
        "end-to-end action on generated graphs; matrix kernels incl. modulo 2^31-1, 2^31, 0",
    )


if __name__ == "__main__":
    from cv.core import run_main

    run_main(main)
