"""C03 — de-duplication never merges distinct states nor keeps duplicates."""

import json
import os
import sys

sys.path.insert(0, os.path.join(os.path.dirname(__file__), ".."))

import torch  # noqa: E402

from cv import graphs  # noqa: E402
from cv.core import VERIF, Check, LeanBuild  # noqa: E402
from cayleypy import torch_utils  # noqa: E402

THEOREMS = [
    "Cv.C03.xorShrLogical_injective",
    "Cv.C03.mul_injective",
    "Cv.C03.evalMix_injective_of_check",
    "Cv.C03.xorShrArith_compl",
    "Cv.C03.xorShrArith_compl'",
    "Cv.C03.arith_mix_collides",
    "Cv.C03.one_word_diff_never_collides",
    "Cv.C03.combine_seed_injective",
    "Cv.C03.swapped_words_separable",
    "Cv.C03.combiner_topbit_family",
    "Cv.C03.swapped_words_topbit_collide",
    "Cv.C03.chunked_eq",
    "Cv.C03.identity_injective",
    "Cv.C03.key_injective",
    "Cv.C03.dot_one_coord",
    "Cv.C03.dot_one_coord_odd",
    "Cv.C03.gen_fits",
    "Cv.C03.gen_mix_check",
    "Cv.C03.gen_combiner_inv",
    "Cv.C03.gen_mix_injective",
    "Cv.C03.gen_one_word_diff",
    "Cv.C03.gen_combine_seed_injective",
    "Cv.C03.gen_swapped_words",
    "Cv.C03.gen_swapped_words_topbit_collide",
    "Cv.C03.uniqueStates_keys_strict",
    "Cv.C03.uniqueStates_subset",
    "Cv.C03.uniqueStates_key_mem",
    "Cv.C03.uniqueStates_mem",
    "Cv.C03.uniqueStates_nodup",
    "Cv.C03.uniqueStates_first",
]
M64 = (1 << 64) - 1
T63 = 1 << 63


def U(x):
    return int(x) & M64


def S64(x):
    x &= M64
    return x - (1 << 64) if x >> 63 else x


# ---------- the regenerated mixing IR, executed in Python (only to BUILD witnesses; never as an oracle)
def mix_py(steps, x):
    x = U(x)
    for s in steps:
        if s[0] == "arith":
            x ^= U(S64(x) >> s[1])
        elif s[0] == "masked":
            x ^= U(S64(x) >> s[1]) & s[2]
        else:
            x = (x * s[1]) & M64
    return x


def unmix_py(steps, y):
    """Inverse of the mixing function when every step is invertible (logical xorshift / odd multiplier)."""
    y = U(y)
    for s in reversed(steps):
        if s[0] == "masked":
            k = s[1]
            x = y
            for _ in range(64 // max(k, 1) + 1):
                x = y ^ (x >> k)
            y = x
        elif s[0] == "mul":
            y = (y * pow(s[1], -1, 1 << 64)) & M64
        else:
            return None
    return y


_GRAPH_CACHE = {}


def multiword_graph(n, w, seed, chunk=2**25):
    key = (n, w, seed, chunk)
    if key not in _GRAPH_CACHE:
        if len(_GRAPH_CACHE) > 400:
            _GRAPH_CACHE.clear()
        _GRAPH_CACHE[key] = _multiword_graph(n, w, seed, chunk)
    return _GRAPH_CACHE[key]


def _multiword_graph(n, w, seed, chunk=2**25):
    gens = [[(i + 1) % n for i in range(n)], [1, 0] + list(range(2, n))]
    gd = graphs.GDef("perm", gens, [i % min(n, 2**min(w, 20)) for i in range(n)])
    return gd, gd.graph(bit_encoding_width=w, random_seed=seed, hash_chunk_size=chunk)


def hashes_of(g, rows):
    return g.hasher.make_hashes(torch.tensor([[S64(v) for v in r] for r in rows], dtype=torch.int64)).tolist()


def pair_collides_all_seeds(kind, n, w, a, b, seeds):
    """a, b: encoded rows (lists of words) or decoded rows; True when hashes are equal under every seed."""
    for sd in seeds:
        _, g = multiword_graph(n, w, sd)
        if kind == "decoded":
            ha, hb = g.hasher.make_hashes(g.encode_states(torch.tensor([a, b], dtype=torch.int64))).tolist()
        else:
            ha, hb = hashes_of(g, [a, b])
        if ha != hb:
            return False
    return True


def structured_pairs(rng, L, ir_steps):
    """Encoded pairs from the property's families. Yields (family, a, b)."""
    a = [rng.getrandbits(64) for _ in range(L)]
    i = rng.randrange(L)
    b = a[:]
    b[i] = a[i] ^ M64
    yield "complement-of-a-word", a, b
    if L >= 2:
        i, j = rng.sample(range(L), 2)
        if a[i] != a[j]:
            b = a[:]
            b[i], b[j] = a[j], a[i]
            yield "swapped-words", a, b
        d = rng.getrandbits(64) or 1
        b = a[:]
        b[i] ^= d
        b[j] ^= d
        yield "equal-xor-difference-in-two-words", a, b
        b = a[:]
        b[i] ^= T63
        b[j] ^= T63
        yield "sign-bit-difference-in-two-words", a, b
    b = a[:]
    b[i] ^= T63
    yield "sign-bit-difference", a, b
    b = a[:]
    b[rng.randrange(L)] ^= 1 << rng.randrange(64)
    yield "single-bit-difference", a, b
    b = a[:]
    k = rng.randrange(L)
    b[k] = (a[k] + (1 << rng.randrange(64))) & M64
    yield "power-of-two-offset", a, b


def main():
    ck = Check("C03")
    rng = ck.rng
    ck.lean_obligations("CvProps.C03", THEOREMS)
    drv = ck.driver()
    from extract import regen

    ir = regen.HASH_IR
    if ir is None:
        regen.regenerate(os.environ.get("CV_REPO", "/repo"), os.path.join(VERIF, "lean"))
        ir = regen.HASH_IR
    mix_ok = drv.ask("hash.check") == "1"
    ck.obligation("regenerated: checkMix Gen.mixSteps Gen.mixInvs = true (every mixing step of the current hasher.py is invertible)", mix_ok, "" if mix_ok else str(ir))
    seeds = [1, 2, 12345, -99, 2**40 + 7]

    # ---------- 1. correspondence of hash values (bit-identical), seeds x chunk sizes x hash kinds
    for _ in range(40 if not ck.thorough else 600):
        if ck.enough():
            break
        w = rng.choice([2, 3, 5, 7, 16, 33, 64])
        n = rng.choice([64, 65, 40, 70]) if w < 16 else rng.choice([4, 5, 9])
        if (n * w + 63) // 64 < 2:
            continue
        seed = rng.choice(seeds + [0])
        chunk = rng.choice([1, 2, 5, 2**25])
        gd, g = multiword_graph(n, w, seed, chunk)
        L = g.encoded_state_size
        rows = [[rng.getrandbits(64) for _ in range(L)] for _ in range(rng.choice([1, 3, 7, 11]))]
        real = hashes_of(g, rows)
        model = drv.ask(f"hash.comb {g.hasher.seed} ; " + " ; ".join(" ".join(str(v) for v in r) for r in rows))
        ck.case(["comb", w, n, seed, chunk, rows], True, sample={"kind": "mixing-hash", "w": w, "n": n, "seed": seed, "chunk": chunk, "rows": len(rows)})
        ck.count("hash:mix:words=" + str(L))
        if model != " ".join(map(str, real)):
            ck.correspondence_break("mixing hash: model (regenerated IR) and implementation differ", {"w": w, "n": n, "seed": seed, "row0": rows[0], "impl": real[:3], "model": model[:120]})
        # chunk independence on the implementation itself
        _, g2 = multiword_graph(n, w, seed, 2**25)
        if hashes_of(g2, rows) != real:
            ck.violation("C03/chunk-dependence/mix", "chunked hashing differs from unchunked hashing", {"case": {"w": w, "n": n, "seed": seed, "chunk": chunk, "rows": rows}})
    for _ in range(40 if not ck.thorough else 600):
        if ck.enough():
            break
        gd = graphs.gen_def(rng, mat_share=0.4)
        size = len(gd.central)
        if size < 2:
            continue
        seed = rng.choice(seeds + [0])
        chunk = rng.choice([1, 2, 5, 2**25])
        g = gd.graph(bit_encoding_width=None, random_seed=seed, hash_chunk_size=chunk)
        rows = [[rng.randrange(-(2**31) + 1, 2**31) for _ in range(size)] for _ in range(rng.choice([1, 3, 7, 11]))]
        t = torch.tensor(rows, dtype=torch.int64)
        real = g.hasher.make_hashes(t).tolist()
        vec = g.hasher.vec_hasher.reshape(-1).tolist()
        model = drv.ask("hash.dot ; " + " ".join(map(str, vec)) + " ; " + " ; ".join(" ".join(map(str, r)) for r in rows))
        ck.case(["dot", gd.key(), seed, chunk, rows], True, sample={"kind": "dot-hash", "size": size, "seed": seed, "chunk": chunk})
        ck.count("hash:dot:" + gd.kind)
        if model != " ".join(map(str, real)):
            ck.correspondence_break("dot-product hash: model and implementation differ", {"gd": gd.to_json(), "seed": seed})
        g2 = gd.graph(bit_encoding_width=None, random_seed=seed, hash_chunk_size=2**25)
        if g2.hasher.make_hashes(t).tolist() != real:
            ck.violation("C03/chunk-dependence/dot", "chunked hashing differs from unchunked hashing", {"case": {"gd": gd.to_json(), "seed": seed, "chunk": chunk, "rows": rows}})
        # equal states hash equally across copies derived from one another
        for gc in (g.with_inverted_generators if gd.kind == "perm" or gd.inverse_candidates() is not None else g, g.modified_copy(g.definition)):
            if gc.hasher.make_hashes(t).tolist() != real:
                ck.violation("C03/copy-hash-differs", "a derived graph copy hashes equal states differently", {"case": {"gd": gd.to_json(), "seed": seed}})
            # the hash the copy HOLDS for its central state is the hash of that state (under the copy's and the origin's hasher)
            cs = gc.central_state.reshape(1, -1)
            if gc.central_state_hash.tolist() != gc.hasher.make_hashes(gc.encode_states(cs)).tolist() or gc.central_state_hash.tolist() != g.hasher.make_hashes(g.encode_states(cs)).tolist():
                ck.violation("C03/copy-central-hash-stale", "a derived graph copy holds a hash for its central state that differs from the hash of that state", {"case": {"gd": gd.to_json(), "seed": seed}})

    # ---------- 1b. spread of the dot-product hash on SMALL entries (what un-encoded graphs hash): the property tolerates
    # random collisions only below 2^-40 per pair, so the hashes of small-entry states must spread over more than 2^48
    # values.  If they do not, a birthday search over random states looks for a concrete colliding pair.
    for _ in range(3 if not ck.thorough else 12):
        if ck.enough():
            break
        size = rng.choice([8, 12, 20, 33])
        seed = rng.choice(seeds)
        from cayleypy import CayleyGraph, CayleyGraphDef

        g = CayleyGraph(CayleyGraphDef.create([[(i + 1) % size for i in range(size)]], central_state=list(range(size))), bit_encoding_width=None, random_seed=seed, device="cpu")
        gen = torch.Generator().manual_seed(rng.randrange(2**31))
        t = torch.randint(0, size, (4096, size), generator=gen, dtype=torch.int64)
        hs = g.hasher.make_hashes(t)
        spread = int(hs.abs().max())
        ck.case(["dot-spread", size, seed], True, sample={"kind": "dot-hash spread", "size": size, "seed": seed, "max_abs_hash_bits": spread.bit_length()})
        ck.count("hash:dot:spread")
        if spread < 2**48:
            # birthday search for a concrete failing input
            big = torch.randint(0, size, (1500000, size), generator=gen, dtype=torch.int64)
            big = torch.unique(big, dim=0)
            hb = g.hasher.make_hashes(big)
            order = torch.argsort(hb)
            same = (hb[order][1:] == hb[order][:-1]).nonzero().reshape(-1)
            rep = {"case": {"kind": "dot-spread", "size": size, "seed": seed}, "max_abs_hash_bits": spread.bit_length()}
            if len(same) > 0:
                i = int(same[0])
                a, b = big[order[i]].tolist(), big[order[i + 1]].tolist()
                ck.violation("C03/dot/birthday-collision", f"the dot-product hash of small-entry states spans only {spread.bit_length()} bits: two distinct states among {len(big)} random ones collide (probability per pair far above 2^-40)", dict(rep, state_a=a, state_b=b, hash=int(hb[order[i]])))
            else:
                ck.correspondence_break(f"dot-product hash of small-entry states spans only {spread.bit_length()} bits (< 48): collision probability per pair above 2^-40", rep)
    # ---------- 2. get_unique_states against the model (stable sort + first-occurrence mask)
    for _ in range(60 if not ck.thorough else 1500):
        if ck.enough():
            break
        w = rng.choice([2, 3, 5])
        n = rng.choice([64, 40, 70, 20])
        gd, g = multiword_graph(n, w, rng.choice(seeds))
        L = g.encoded_state_size
        base = [[rng.getrandbits(64) for _ in range(L)] for _ in range(rng.randint(1, 6))]
        rows = [rng.choice(base) for _ in range(rng.randint(1, 14))]
        t = torch.tensor([[S64(v) for v in r] for r in rows], dtype=torch.int64)
        graphs.drain_events()
        us, uh = g.get_unique_states(t)
        ev = graphs.drain_events()
        got = [[U(v) for v in r] for r in us.tolist()]
        distinct = sorted({tuple(r) for r in rows})
        ck.case(["uniq", w, n, rows], len(distinct) >= 2, sample={"kind": "get_unique_states", "rows": len(rows), "distinct": len(distinct), "words": L})
        ck.count("uniq:words=" + str(L))
        if sorted(map(tuple, got)) != distinct or ev:
            ck.violation("C03/unique/wrong-set", "get_unique_states lost a state or kept a duplicate", {"case": {"w": w, "n": n, "rows": rows}, "observed": got, "events": ev})
            continue
        hs = g.hasher.make_hashes(t).tolist()
        idx = [int(x) for x in drv.ask("uniq.idx ; " + " ".join(map(str, hs))).split()]
        if [rows[i] for i in idx] != got or [hs[i] for i in idx] != uh.tolist():
            ck.correspondence_break("get_unique_states: model and implementation differ (order / representative)", {"w": w, "n": n, "rows": rows})
    # identity hasher (single word)
    for _ in range(20):
        n = rng.choice([8, 16, 21, 64])
        gd, g = multiword_graph(n, 64 // n if n <= 32 else 1, 3)
        if g.encoded_state_size != 1:
            continue
        vals = [rng.getrandbits(64) for _ in range(4)] + [0, M64, T63]
        rows = [rng.choice(vals) for _ in range(12)]
        us, uh = g.get_unique_states(torch.tensor([[S64(v)] for v in rows], dtype=torch.int64))
        ck.case(["uniq1", rows], True)
        ck.count("uniq:identity")
        if sorted(U(v) for v in uh.tolist()) != sorted(set(rows)) or [S64(v) for v in sorted(set(map(S64, rows)))] != uh.tolist():
            ck.violation("C03/unique/identity", "single-word de-duplication is not the sorted set of distinct words", {"case": {"rows": rows}, "observed": uh.tolist()})

    # ---------- 3. the known seed-independent family of the combiner (finding D1b), built with the inverse mix
    if ir is not None and mix_ok:
        a, b = rng.getrandbits(64), rng.getrandbits(64)
        a2 = unmix_py(ir["steps"], mix_py(ir["steps"], a) ^ T63)
        b2 = unmix_py(ir["steps"], mix_py(ir["steps"], b) ^ T63)
        if a2 is not None and pair_collides_all_seeds("encoded", 64, 2, [a, b], [a2, b2], seeds):
            ck.violation(
                "C03/combiner-topbit-pair",
                "two-word states whose mixed words both differ by exactly 2^63 collide under every seed",
                {"case": {"a": [a, b], "b": [a2, b2], "n": 64, "w": 2, "seeds": seeds}},
            )
        ck.count("family:combiner-topbit")

    # ---------- 4. structured pair search on the real make_hashes, several independent seeds
    n_pairs = 250 if not ck.thorough else 20000
    for _ in range(n_pairs):
        if ck.enough():
            break
        w, n = rng.choice([(2, 64), (3, 64), (5, 64), (64, 2), (64, 3), (32, 4), (1, 128)])
        L = (n * w + 63) // 64
        for fam, a, b in structured_pairs(rng, L, ir):
            if a == b:
                continue
            ck.case(["pair", fam, a, b], True)
            ck.count("family:" + fam)
            if pair_collides_all_seeds("encoded", n, w, a, b, seeds):
                ck.violation(f"C03/seed-independent-collision/{fam}", f"distinct multi-word states ({fam}) collide under every one of {len(seeds)} seeds", {"case": {"a": a, "b": b, "n": n, "w": w, "seeds": seeds}, "family": fam})
    # decoded-level pairs: single entry / transposition, encoded multi-word, un-encoded and matrix states
    for _ in range(80 if not ck.thorough else 4000):
        if ck.enough():
            break
        n = rng.choice([40, 64, 70])
        w = rng.choice([3, 5, None])
        s = [rng.randrange(min(n, 8)) for _ in range(n)]
        t = s[:]
        if rng.random() < 0.5:
            i = rng.randrange(n)
            t[i] = (s[i] + 1 + rng.randrange(6)) % 8
            fam = "single-entry"
        else:
            i, j = rng.sample(range(n), 2)
            if s[i] == s[j]:
                continue
            t[i], t[j] = s[j], s[i]
            fam = "transposition"
        if s == t:
            continue
        coll = True
        for sd in seeds:
            gens = [[(i + 1) % n for i in range(n)]]
            g = graphs.GDef("perm", gens, [q % 8 for q in range(n)]).graph(bit_encoding_width=w, random_seed=sd)
            ha, hb = g.hasher.make_hashes(g.encode_states(torch.tensor([s, t], dtype=torch.int64))).tolist()
            if ha != hb:
                coll = False
                break
        ck.case(["dpair", fam, w, s, t], True)
        ck.count("family:decoded-" + fam + (":unencoded" if w is None else ":encoded"))
        if coll:
            ck.violation(f"C03/seed-independent-collision/decoded-{fam}", f"distinct states ({fam}) collide under every seed", {"case": {"s": s, "t": t, "n": n, "w": w, "seeds": seeds}})
    # when a mixing step is not invertible, build the witness that step implies and try it on the implementation
    if ir is not None and not mix_ok:
        for si, s in enumerate(ir["steps"]):
            x = rng.getrandbits(64)
            prefix = ir["steps"][:si]
            y = mix_py(prefix, x)  # value entering the non-invertible step
            if s[0] == "arith":
                y2 = y ^ M64
            elif s[0] == "masked" and s[2] != (1 << (64 - s[1])) - 1:
                y2 = None
                for _ in range(2000):  # a masked shift that is not the logical one: look for two inputs of the step that collide
                    a, b = rng.getrandbits(64), rng.getrandbits(64)
                    if a != b and mix_py([s], a) == mix_py([s], b):
                        y, y2 = a, b
                        break
                if y2 is None:
                    continue
            elif s[0] == "mul" and s[1] % 2 == 0:
                v2 = (s[1] & -s[1]).bit_length() - 1
                y2 = (y + (1 << (64 - v2))) & M64
            else:
                continue
            # pull both values back through the (invertible) steps before it
            x1, x2 = unmix_py(prefix, y), unmix_py(prefix, y2)
            if x1 is None or x2 is None or x1 == x2:
                continue
            pair = ([x1, 5], [x2, 5])
            if pair_collides_all_seeds("encoded", 64, 2, pair[0], pair[1], seeds):
                ck.violation("C03/seed-independent-collision/non-invertible-mix-step", f"witness implied by non-invertible step {s} collides under every seed", {"case": {"a": pair[0], "b": pair[1], "n": 64, "w": 2, "seeds": seeds}})
    ck.assumptions = [
        "collision PROBABILITY (< 2^-40) is not formalised; only seed-independent (structural) collisions are decided",
        "the dot-product key vector is read from the graph object (torch generator) and passed to the model as data",
    ]
    ck.finish(
        rule="hash values (mixing / dot / identity) on random batches x seeds x chunk sizes, bit-identical with the model; get_unique_states on batches with repeats; "
        "structured pairs from the property's families (complement of a word, swapped words, equal XOR differences, sign-bit differences, single-entry, transposition, power-of-two offsets) under 5 independent seeds"
    )


if __name__ == "__main__":
    from cv.core import run_main

    run_main(main)
