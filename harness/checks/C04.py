"""C04 — paths restored from a BFS result are valid and shortest."""

import json
import os
import sys

sys.path.insert(0, os.path.join(os.path.dirname(__file__), ".."))

from cv import algos, graphs  # noqa: E402
from cv.core import VERIF, Check  # noqa: E402

THEOREMS = [
    "Cv.C04.walk_inv",
    "Cv.C04.walk_iff_path",
    "Cv.C04.restorePath_spec",
    "Cv.C04.findPathTo_spec",
    "Cv.C04.revertPathM_spec",
    "Cv.C04.findPathFrom_spec",
    "Cv.C04.findPathFrom_valid",
    "Cv.C04e.encoded_pathHyp",
    "Cv.C04e.encoded_pathHyp_restrict",
    "Cv.C04e.inverted_flag_eq",
    "Cv.C04e.encoded_ball",
    "Cv.C04e.encoded_ball_math",
    "Cv.C04e.encoded_findPathTo_spec",
    "Cv.C04e.encoded_findPathFrom_spec",
    "Cv.C04e.encoded_revertPath_spec",
    "Cv.C04e.plain_pathHyp",
    "Cv.C04e.plain_ball",
    "Cv.C04e.plain_findPathTo_spec",
    "Cv.C04e.plain_findPathFrom_spec",
    "Cv.C04e.encoded_ball_single_word",
    "Cv.C04e.encoded_findPathTo_single_word",
    "Cv.C04e.encoded_findPathFrom_single_word",
    "Cv.C04e.encoded1d_findPathTo_eq",
    "Cv.C04m.mat_pathHypOn",
    "Cv.C04m.mat_pathHyp_restrict",
    "Cv.C04m.mat_ball",
    "Cv.C04m.mat_ball_math",
    "Cv.C04m.mat_findPathTo_spec",
    "Cv.C04m.mat_findPathFrom_spec",
    "Cv.C04m.mat_revertPath_spec",
    "Cv.C04m.matInvOf_iff_apply",
    "Cv.C04m.mat_isInverse_iff",
    "Cv.C04m.mat_inv_sound",
    "Cv.C04m.mat_inverseMap_spec",
]


def gen_graph(ck, cap):
    rng = ck.rng
    for _ in range(300):
        gd = graphs.gen_def(rng, mat_share=0.2)
        if gd.kind == "mat" and gd.inverse_candidates() is None:
            continue
        layers = gd.brute_layers(cap=cap)
        if layers is None or len(layers) < 3:
            continue
        return gd, layers
    raise RuntimeError("no graph")


def outside_state(rng, gd, orbit):
    """A state of the right shape that is not in the orbit of the central state (when one exists)."""
    for _ in range(20):
        s = list(gd.central)
        if gd.kind == "perm":
            i = rng.randrange(len(s))
            s[i] = (s[i] + 1) % max(2, max(gd.central) + 1)
        else:
            hi = gd.modulo if gd.modulo > 0 else 3
            s[rng.randrange(len(s))] = rng.randrange(hi)
        if tuple(s) not in orbit:
            return s
    return None


def run_case(ck: Check, case: dict):
    gd = graphs.GDef.from_json(case["gd"])
    cfg, D, queries = case["cfg"], case["D"], case["queries"]
    ctx = algos.Ctx(ck, gd, cfg, extra_states=queries)
    if not ctx.ok:
        ck.count("skipped:" + ctx.reason.split(":")[0])
        return
    g = ctx.g
    bkw = {"max_diameter": D}
    if case.get("ball_stop") == "callback" and D >= 1:
        # the ball ends because a user callback says so (after D new layers), not because of the depth limit
        seen = [0]

        def cb(_layer, _hashes):
            seen[0] += 1
            return seen[0] >= D

        bkw = {"stop_condition": cb}
    elif case.get("ball_stop") == "explore" and D >= 1 and D < len(ctx.layers):
        bkw = {"max_layer_size_to_explore": len(ctx.layers[D])}
    ck.count("ball ended by:" + ("depth limit" if "max_diameter" in bkw else "callback" if "stop_condition" in bkw else "layer-size limit"))
    st, r = algos.call(g.bfs, return_all_hashes=True, max_layer_size_to_store=case.get("store", 1000), disable_batching=case.get("nobatch", False), **bkw)
    if st != "ok":
        ck.violation("C04/bfs-error", "BFS with hashes raised: " + r, {"case": case})
        return
    if case.get("via_file") and gd.kind == "perm":
        # the same ball after BfsResult.save / BfsResult.load: still "a BFS result that kept hashes for layers 0..D"
        import tempfile

        from cayleypy import BfsResult

        with tempfile.TemporaryDirectory(prefix="cvC04") as td:
            r.save(os.path.join(td, "ball.h5"))
            st, r2 = algos.call(BfsResult.load, os.path.join(td, "ball.h5"))
        if st != "ok":
            ck.violation("C04/load-error", "loading a saved ball raised: " + r2, {"case": case})
            return
        r = r2
        ck.count("ball passed through save/load")
    depth = len(r.layers_hashes) - 1  # layers 0..depth kept
    lines = ctx.layers_line(r.layers_hashes)
    for q in queries:
        d = ctx.dist_from_central(q)
        in_ball = d is not None and d <= depth
        ck.case(["to", gd.key(), cfg, D, q], True, sample={"gd_tag": gd.tag, "n": len(gd.central), "cfg": cfg, "D": D, "query": q[:12], "true_dist": d})
        ck.traces += 1
        ck.count("container:" + case.get("container", "list"))
        ck.count("query:" + ("inside" if in_ball and d < depth else "boundary" if in_ball else "outside-ball" if d is not None else "outside-orbit"))
        mshape = (gd.n, gd.m) if gd.kind == "mat" else None
        st, p = algos.call(g.find_path_to, algos.container(case.get("container", "list"), q, mshape), r)
        mres = algos.parse_path_res(ctx.drv.ask(f"path.to ; {lines} ; {gd.pack(q)}"))
        rep = {"case": dict(case, queries=[q]), "true_distance": d, "ball_depth": depth}
        if st != "ok":
            ck.violation("C04/find_path_to/error", "find_path_to raised: " + p, dict(rep, observed=p))
            continue
        if not in_ball:
            if p is not None:
                ck.violation("C04/find_path_to/phantom", "find_path_to returned a path for a state outside layers 0..D", dict(rep, observed=p))
            elif mres[0] != "none":
                ck.correspondence_break("findPathTo: model finds a path where implementation returns None", rep)
            continue
        if p is None:
            ck.violation("C04/find_path_to/missed", "find_path_to returned no path for a state inside layers 0..D", rep)
            continue
        end = ctx.apply_path(gd.central, p)
        if end != tuple(q) or len(p) != d:
            ck.violation("C04/find_path_to/" + ("invalid" if end != tuple(q) else "not-shortest"), "path does not lead from the central state to the query, or is not shortest", dict(rep, observed=p, replay_end=end))
            continue
        if mres[0] != "found" or len(mres[1]) != len(p):
            ck.correspondence_break("findPathTo: model and implementation differ (found / length)", dict(rep, model=mres, impl=p))
        elif mres[1] != p:
            ck.count("drift:path.to differs in generator choice (non-binding)")
        # find_path_from (inverse-closed only) and revert_path
        if g.definition.generators_inverse_closed:
            st, pf = algos.call(g.find_path_from, algos.container(case.get("container", "list"), q, mshape), r)
            if st != "ok" or pf is None:
                ck.violation("C04/find_path_from/error-or-missed", f"find_path_from failed for a state inside the ball: {pf}", rep)
                continue
            if ctx.apply_path(q, pf) != tuple(gd.central) or len(pf) != d:
                ck.violation("C04/find_path_from/invalid", "find_path_from result does not lead from the query to the central state with the true distance", dict(rep, observed=pf))
                continue
            mf = algos.parse_path_res(ctx.drv.ask(f"path.from ; {lines} ; {gd.pack(q)}"))
            if mf[0] != "found" or mf[1] != pf:
                ck.correspondence_break("findPathFrom: model and implementation differ", dict(rep, model=mf, impl=pf))
            rv = g.definition.revert_path(p)
            if ctx.apply_path(q, rv) != tuple(gd.central) or len(rv) != len(p):
                ck.violation("C04/revert_path/invalid", "reverted path is not a valid path back of the same length", dict(rep, path=p, reverted=rv))
            mr = algos.parse_path_res(ctx.drv.ask(f"path.revert ; {' '.join(map(str, p))}"))
            if mr[0] != "found" or mr[1] != rv:
                ck.correspondence_break("revertPath: model and implementation differ", dict(rep, model=mr, impl=rv))
        ev = graphs.drain_events()
        if ev:
            ck.violation("C04/events", "library event during path query: " + str(ev[0])[:100], dict(rep, events=[str(e)[:200] for e in ev[:3]]))
    if case.get("derived") and gd.kind == "perm" and len(gd.gens) >= 2 and not ck.violations:
        derived_copy_stage(ck, case, gd, cfg, D, queries, g)


def derived_copy_stage(ck, case, gd, cfg, D, queries, g):
    """A copy of the graph object derived with `modified_copy` AFTER the original has answered path queries (its lazily built
    inverted graph exists by now): the copy gets another definition (the generators in reversed order) and must answer like a
    fresh graph of that definition."""
    gens2 = [list(p) for p in reversed(gd.gens)]
    if gens2 == [list(p) for p in gd.gens]:
        return
    gd2 = graphs.GDef("perm", gens2, list(gd.central), tag=gd.tag + "+derived-copy")
    ctx2 = algos.Ctx(ck, gd2, cfg, extra_states=queries)
    if not ctx2.ok:
        return
    st, g2 = algos.call(g.modified_copy, ctx2.g.definition)
    if st != "ok":
        ck.violation("C04/derived-copy/error", "modified_copy raised: " + g2, {"case": dict(case, stage="derived-copy")})
        return
    ctx2.g = g2
    ctx2.send_table()
    st, r2 = algos.call(g2.bfs, return_all_hashes=True, max_diameter=D)
    if st != "ok":
        ck.violation("C04/derived-copy/bfs-error", "BFS on the derived copy raised: " + r2, {"case": dict(case, stage="derived-copy")})
        return
    depth = len(r2.layers_hashes) - 1
    for q in queries:
        d = ctx2.dist_from_central(q)
        in_ball = d is not None and d <= depth
        ck.case(["to-derived", gd2.key(), cfg, D, q], True)
        ck.count("derived-copy query:" + ("inside" if in_ball else "outside"))
        st, p = algos.call(g2.find_path_to, list(q), r2)
        rep = {"case": dict(case, queries=[q], stage="derived-copy (generators reversed, copy taken after the original answered queries)"), "true_distance": d, "ball_depth": depth}
        if st != "ok":
            ck.violation("C04/derived-copy/find_path_to/error", "find_path_to on the derived copy raised: " + p, dict(rep, observed=p))
            return
        if not in_ball:
            if p is not None:
                ck.violation("C04/derived-copy/find_path_to/phantom", "derived copy returned a path for a state outside layers 0..D", dict(rep, observed=p))
            continue
        if p is None:
            ck.violation("C04/derived-copy/find_path_to/missed", "derived copy returned no path for a state inside layers 0..D", rep)
            return
        end = ctx2.apply_path(gd2.central, p)
        if end != tuple(q) or len(p) != d:
            ck.violation("C04/derived-copy/find_path_to/invalid", "path returned by the derived copy does not lead from the central state to the query (numbered by the copy's own generators), or is not shortest", dict(rep, observed=p, replay_end=end))
            return
        if g2.definition.generators_inverse_closed:
            st, pf = algos.call(g2.find_path_from, list(q), r2)
            if st != "ok" or pf is None or ctx2.apply_path(q, pf) != tuple(gd2.central) or len(pf) != d:
                ck.violation("C04/derived-copy/find_path_from/invalid", f"find_path_from on the derived copy: {pf}", dict(rep, observed=pf))
                return


def gen_case(ck: Check, cap):
    rng = ck.rng
    gd, layers = gen_graph(ck, cap)
    ecc = len(layers) - 1
    orbit = {s for l in layers for s in l}
    D = rng.choice([0, 1, ecc // 2, ecc - 1, ecc, ecc + 2, rng.randint(0, ecc)])
    D = max(0, D)
    queries = []
    for _ in range(5):
        li = rng.choice([0, min(D, ecc), min(D + 1, ecc), rng.randint(0, ecc), rng.randint(0, min(D, ecc))])
        queries.append(list(rng.choice(layers[li])))
    o = outside_state(rng, gd, orbit)
    if o is not None and rng.random() < 0.6:
        queries.append(o)
    return {"gd": gd.to_json(), "cfg": graphs.gen_cfg(rng, gd), "D": D, "queries": queries, "store": rng.choice([None, 1, 1000]), "nobatch": rng.random() < 0.3, "via_file": rng.random() < 0.15, "ball_stop": rng.choice(["depth", "depth", "callback", "explore"]), "container": algos.pick_container(rng, max(x for q in queries for x in q), min(x for q in queries for x in q)), "derived": rng.random() < 0.3}


def main():
    ck = Check("C04")
    if ck.replay:
        body = json.load(open(os.path.join(VERIF, ck.replay) if not os.path.isabs(ck.replay) else ck.replay))
        ck.guard(run_case, ck, body["case"])
        ck.finish(rule="replay of one recorded case")
    ck.lean_obligations(["CvProps.C04", "CvProps.C04e", "CvProps.C04m"], THEOREMS)
    for case in json.load(open(os.path.join(VERIF, "harness", "corpus", "C04.json"))):
        ck.guard(run_case, ck, case)
        ck.count("corpus")
    for _ in range(70 if not ck.thorough else 2500):
        if ck.enough():
            break
        ck.guard(run_case, ck, gen_case(ck, 1200 if not ck.thorough else 20000))
    # states with the same neighbour under several generators, queried deep inside layers of a few dozen states
    for _ in range(14 if not ck.thorough else 300):
        if ck.enough():
            break
        gd = graphs.duplicate_neighbour_def(ck.rng)
        layers = gd.brute_layers(cap=3000)
        if layers is None or len(layers) < 3:
            continue
        big = max(range(len(layers)), key=lambda i: len(layers[i]))
        qs = [list(ck.rng.choice(layers[min(len(layers) - 1, big + 1)])) for _ in range(4)] + [list(ck.rng.choice(layers[big])) for _ in range(3)] + [list(ck.rng.choice(layers[-1]))]
        ck.guard(run_case, ck, {"gd": gd.to_json(), "cfg": graphs.gen_cfg(ck.rng, gd), "D": len(layers), "queries": qs, "store": None, "nobatch": False})
        ck.count("duplicate-neighbour-graphs")
    # balls with a two- or three-digit number of layers, in memory and after a save/load round trip
    for i in range(6 if not ck.thorough else 60):
        if ck.enough():
            break
        gd = graphs.deep_directed_def(ck.rng) if i % 3 else graphs.many_layer_directed_def(ck.rng, 98, 110)
        layers = gd.brute_layers(cap=3000)
        if layers is None or len(layers) < 11:
            continue
        qs = [list(ck.rng.choice(layers[j])) for j in (2, 9, 10, len(layers) - 1, ck.rng.randrange(len(layers)), ck.rng.randrange(len(layers)))]
        cfg = graphs.gen_cfg(ck.rng, gd)
        cfg["batch_size"] = ck.rng.choice([3, 50, 2**20])
        ck.guard(run_case, ck, {"gd": gd.to_json(), "cfg": cfg, "D": len(layers), "queries": qs, "store": None, "nobatch": False, "via_file": i % 2 == 0})
        ck.count("many-layer balls")
    ck.assumptions = ["hash injective on the ball, the query and its inverse-neighbours (H2 events are violations)", "max_diameter >= 1 semantics: D = 0 is passed as max_diameter=0 and yields the one-layer ball"]
    ck.finish(rule="generated definitions with constructible inverse x ball depth D in {0, 1, ecc/2, ecc-1, ecc, ecc+2, random} x queries inside / on the boundary of / outside the ball and outside the orbit; judged by Spec distances (proven reference BFS) and replay of the path with plain integer arithmetic")


if __name__ == "__main__":
    from cv.core import run_main

    run_main(main)
