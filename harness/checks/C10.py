"""C10 — inverted and inverse-closed definitions are exact group-theoretic inverses."""

import itertools
import json
import os
import sys
from fractions import Fraction

sys.path.insert(0, os.path.join(os.path.dirname(__file__), ".."))

import numpy as np  # noqa: E402

from cv import graphs  # noqa: E402
from cv.core import VERIF, Check  # noqa: E402
from cayleypy import CayleyGraphDef, MatrixGenerator, create_graph  # noqa: E402

# theorems `regenerated CayleyGraphDef methods (permutation branch) = model` (CvProps/C10g.lean; translator harness/extract/pylean.py)
GEN_THEOREMS = [
    "Cv.C10g.lrx4_created",
    "Cv.C10g.c3_created",
    "Cv.C10g.c3_makeIC",
    "Cv.C10g.generators_inverse_map_gen",
    "Cv.C10g.generators_inverse_map_gen_inrange",
    "Cv.C10g.with_inverted_generators_gen",
    "Cv.C10g.revert_path_gen",
    "Cv.C10g.make_inverse_closed_gen",
    "Cv.C10g.make_inverse_closed_gen_closed",
    "Cv.C10g.make_inverse_closed_gen_open",
    "Cv.C10g.make_inverse_closed_gen_raw",
    "Cv.C10g.generators_inverse_map_source_spec",
    "Cv.C10g.generators_inverse_map_source_none",
    "Cv.C10g.generators_inverse_map_source_total",
    "Cv.C10g.with_inverted_generators_source_spec",
    "Cv.C10g.with_inverted_generators_source_succeeds",
    "Cv.C10g.make_inverse_closed_source_closed",
    "Cv.C10g.make_inverse_closed_source_succeeds",
    "Cv.C10g.make_inverse_closed_source_prefix",
    "Cv.C10g.revert_path_source_spec",
]

THEOREMS = [
    "Cv.C10.lrx4_created",
    "Cv.C10.c3_created",
    "Cv.C10.c3_makeIC",
    "Cv.C10.c3_inverted",
    "Cv.C10.lastIndexOf_spec",
    "Cv.C10.inverseMapPerm_spec",
    "Cv.C10.inverseClosed_iff",
    "Cv.C10.inverted_spec",
    "Cv.C10.inverted_succeeds",
    "Cv.C10.makeIC_prefix",
    "Cv.C10.makeIC_closed",
    "Cv.C10.makeIC_idem",
    "Cv.C10.makeIC_succeeds",
    "Cv.C10.makeIC_names",
    "Cv.C10.makeIC_gens",
    "Cv.C10.revertPath_spec",
    "Cv.C10.Matrix.inv_sound",
    "Cv.C10.Matrix.isInverse_symm",
]


def L(xs):
    return " ".join(map(str, xs))


def apply(p, s):
    return [s[p[i]] for i in range(len(p))]


def check_perm_def(ck, drv, gens, names, central, name):
    case = {"gens": gens, "names": names, "central": central, "name": name}
    n = len(gens[0])
    ck.case(["permdef", gens, names, central, name], len(gens) >= 1 and n >= 2, sample={"gens": gens[:3], "names": names, "name": name})
    try:
        d = CayleyGraphDef.create(gens, generator_names=names, central_state=central, name=name)
        inv = d.with_inverted_generators()
        ic = d.make_inverse_closed()
        imap = d.generators_inverse_map
        flag = d.generators_inverse_closed
        ic2 = ic.make_inverse_closed()
    except (AssertionError, ValueError, IndexError) as ex:
        ck.violation("C10/perm/error", f"definition operation raised on a valid permutation generator list: {type(ex).__name__}: {ex}", {"case": case})
        return
    ident = list(range(n))
    state = [(i * 7 + 3) % 11 for i in range(n)]
    problems = []
    # inverted definition: i-th generator undoes the i-th generator, on every state
    for p, q in zip(d.generators_permutations, inv.generators_permutations):
        if apply(q, apply(p, state)) != state or apply(p, apply(q, state)) != state or apply(q, apply(p, ident)) != ident:
            problems.append("inverted generator does not undo the original")
    if inv.central_state != d.central_state or len(inv.generators_permutations) != len(gens):
        problems.append("inverted definition changed the central state or the number of generators")
    # flag and inverse map
    true_closed = all(graphs.inv_perm(p) in gens for p in gens)
    if flag != true_closed:
        problems.append(f"inverse-closed flag {flag}, truth {true_closed}")
    if (imap is None) != (not true_closed):
        problems.append("inverse map presence disagrees with closedness")
    if imap is not None:
        for i, j in enumerate(imap):
            if apply(gens[j], apply(gens[i], state)) != state or apply(gens[j], apply(gens[i], ident)) != ident:
                problems.append("inverse map entry is not an inverse")
                break
    # closure: keeps generators, names, order, central state; adds exactly the missing inverses; idempotent; flag
    k = len(gens)
    if ic.generators_permutations[:k] != [list(g) for g in gens] or ic.generator_names[:k] != list(d.generator_names) or ic.central_state != d.central_state:
        problems.append("closure does not keep generators/names/order/central state")
    missing = [graphs.inv_perm(p) for p in gens if graphs.inv_perm(p) not in gens]
    added = ic.generators_permutations[k:]
    if sorted(map(tuple, added)) != sorted(map(tuple, missing)) if true_closed or True else False:
        if {tuple(a) for a in added} != {tuple(m) for m in missing}:
            problems.append("closure does not add exactly the missing inverses")
    want_names = [nm + "'" for p, nm in zip(gens, d.generator_names) if graphs.inv_perm(p) not in gens]
    if ic.generator_names[k:] != want_names:
        problems.append("appended generator names are not name'")
    if not ic.generators_inverse_closed:
        problems.append("closure does not report itself inverse-closed")
    if ic2 != ic:
        problems.append("closure is not idempotent")
    if problems:
        ck.violation("C10/perm/" + problems[0].split()[0] + "-" + problems[0].split()[1], problems[0], {"case": case, "problems": problems})
        return
    # model
    nm_line = " ".join(d.generator_names)
    if all(" " not in x and ";" not in x and x for x in d.generator_names) and " " not in name and ";" not in name:
        m = drv.ask(f"def.makeic ; {name} ; {nm_line} ; {L(d.central_state)} ; " + " ; ".join(L(g) for g in gens))
        want = f"ok ; {ic.name} ; {' '.join(ic.generator_names)} ; {L(ic.central_state)} ; {' | '.join(L(g) for g in ic.generators_permutations)} ; 1"
        if m.replace(" ;  ;", " ; ;") != want.replace(" ;  ;", " ; ;"):
            ck.correspondence_break("makeInverseClosed: model and implementation differ", {"case": case, "model": m[:300], "impl": want[:300]})
    m = drv.ask("def.invmap ; " + " ; ".join(L(g) for g in gens))
    if m != ("none" if imap is None else "some " + L(imap)):
        ck.correspondence_break("inverseMapPerm: model and implementation differ", {"case": case, "model": m, "impl": imap})
    m = drv.ask(f"def.inverted ; {L(d.central_state)} ; " + " ; ".join(L(g) for g in gens))
    want = f"ok ; {inv.name} ; {' '.join(inv.generator_names)} ; {L(inv.central_state)} ; {' | '.join(L(g) for g in inv.generators_permutations)}"
    if m.replace(" ;  ;", " ; ;") != want.replace(" ;  ;", " ; ;"):
        ck.correspondence_break("inverted: model and implementation differ", {"case": case, "model": m[:300], "impl": want[:300]})


def exact_inverse(M, n):
    """Exact rational inverse (Gauss-Jordan over Fractions); None when singular."""
    A = [[Fraction(M[r * n + c]) for c in range(n)] + [Fraction(int(r == c)) for c in range(n)] for r in range(n)]
    for c in range(n):
        piv = next((r for r in range(c, n) if A[r][c] != 0), None)
        if piv is None:
            return None
        A[c], A[piv] = A[piv], A[c]
        pv = A[c][c]
        A[c] = [v / pv for v in A[c]]
        for r in range(n):
            if r != c and A[r][c] != 0:
                f = A[r][c]
                A[r] = [a - f * b for a, b in zip(A[r], A[c])]
    return [A[r][n + c] for r in range(n) for c in range(n)]


def unimodular(rng, n, steps, big):
    M = [int(r == c) for r in range(n) for c in range(n)]
    for _ in range(steps):
        i, j = rng.sample(range(n), 2)
        k = rng.choice([1, -1, 2, -3, rng.randint(-big, big)])
        if rng.random() < 0.2:
            for c in range(n):
                M[i * n + c], M[j * n + c] = M[j * n + c], M[i * n + c]
        else:
            for c in range(n):
                M[i * n + c] += k * M[j * n + c]
    return M


def check_matrix(ck, drv, n, modulo, M):
    case = {"n": n, "modulo": modulo, "M": M}
    g = MatrixGenerator.create(np.array(M, dtype=np.int64).reshape(n, n), modulo)
    Mr = [int(x) for x in g.matrix.reshape(-1)]
    ex = exact_inverse(Mr, n)
    int_inverse = ex is not None and all(v.denominator == 1 for v in ex)
    ck.case(["matinv", n, modulo, M], n >= 2, sample={"n": n, "modulo": modulo, "M": M[:9], "has_integer_inverse": int_inverse})
    ck.count("matrix:mod=" + ("0" if modulo == 0 else "m") + (":int-inverse" if int_inverse else ":no-int-inverse"))
    try:
        inv = g.inv
        ok = True
    except (AssertionError, np.linalg.LinAlgError):
        inv, ok = None, False
    B = modulo if modulo > 0 else 1 << 64
    if ok:
        # soundness: whatever is returned multiplies to the identity (both sides), mod m / wrapped
        eye = [int(r == c) for r in range(n) for c in range(n)]
        Ir = [int(x) for x in inv.matrix.reshape(-1)]
        prod1 = [sum(Mr[r * n + j] * Ir[j * n + c] for j in range(n)) % B for r in range(n) for c in range(n)]
        prod2 = [sum(Ir[r * n + j] * Mr[j * n + c] for j in range(n)) % B for r in range(n) for c in range(n)]
        if prod1 != eye or prod2 != eye or not g.is_inverse_to(inv) or not inv.is_inverse_to(g):
            ck.violation("C10/matrix/unsound-inverse", "inv returned a matrix that is not the inverse", {"case": case, "observed": Ir})
            return
    # completeness is claimed only where IEEE double inversion is accurate to well below 0.5 ("entries small enough
    # for exact arithmetic"): n^2 * max|M| * max|M^-1|^2 < 2^40 (forward error of LU inversion ~ cond * eps * |M^-1|)
    well_conditioned = int_inverse and n * n * max(1, max(abs(v) for v in Mr)) * max(1, max(abs(int(v)) for v in ex)) ** 2 < 2**40
    if int_inverse and not well_conditioned:
        ck.count("matrix:ill-conditioned (float inversion not claimed)")
    if int_inverse and not ok and well_conditioned:
        ck.violation("C10/matrix/missed-inverse", "inv failed on an integer matrix whose inverse is an integer matrix", {"case": case, "exact_inverse": [int(v) for v in ex]})
        return
    # model: candidate = rounded float inverse (oracle), verification step modelled exactly
    try:
        cand = np.array(np.round(np.linalg.inv(g.matrix)), dtype=np.int64).reshape(-1).tolist()
        m = drv.ask(f"mat.inv {B} {n} ; {L(x % B for x in Mr)} ; {L(int(x) % B for x in cand)}")
        if (m == "ok") != ok:
            ck.correspondence_break("Matrix.inv: model (with the float candidate as oracle) and implementation differ", {"case": case, "model": m, "impl_ok": ok})
    except np.linalg.LinAlgError:
        pass


def check_matrix_def(ck, drv, n, modulo, mats, central):
    case = {"n": n, "modulo": modulo, "mats": mats, "central": central}
    gens = [MatrixGenerator.create(np.array(M, dtype=np.int64).reshape(n, n), modulo) for M in mats]
    ck.case(["matdef", n, modulo, mats], True)
    ck.count("matrix-def")
    try:
        d = CayleyGraphDef.for_matrix_group(generators=gens, central_state=central)
        ic = d.make_inverse_closed()
        inv = d.with_inverted_generators()
        imap = d.generators_inverse_map
    except (AssertionError, np.linalg.LinAlgError) as e:
        ck.violation("C10/matrix-def/error", f"definition operation raised for generators with integer inverses: {type(e).__name__}: {e}", {"case": case})
        return
    k = len(gens)
    problems = []
    if ic.generators_matrices[:k] != gens or ic.central_state != d.central_state or ic.generator_names[:k] != d.generator_names:
        problems.append("closure does not keep generators/names/central state")
    if not ic.generators_inverse_closed or ic.make_inverse_closed() != ic:
        problems.append("closure not closed or not idempotent")
    for a, b in zip(d.generators_matrices, inv.generators_matrices):
        if not a.is_inverse_to(b):
            problems.append("inverted generator is not the inverse")
    has_inv = [any(a.is_inverse_to(b) for b in gens) for a in gens]
    if (imap is not None) != all(has_inv):
        problems.append("inverse map presence disagrees with closedness")
    if len(ic.generators_matrices) != k + (0 if all(has_inv) else has_inv.count(False)):
        problems.append("closure does not add exactly the missing inverses")
    if problems:
        ck.violation("C10/matrix-def/" + problems[0].split()[0], problems[0], {"case": case, "problems": problems})
        return
    B = modulo if modulo > 0 else 1 << 64
    m = drv.ask(f"mat.invmap {B} {n} ; " + " ; ".join(L(int(x) % B for x in g.matrix.reshape(-1)) for g in gens))
    if m != ("none" if imap is None else "some " + L(imap)):
        ck.correspondence_break("inverseMapMat: model and implementation differ", {"case": case, "model": m, "impl": imap})


def check_shared_buffer(ck, case):
    """Several generators created from ONE caller-owned int64 array (different moduli, inverses taken in between): each
    generator must keep standing for the matrix it was created from, and its inverse must undo that matrix."""
    n, M, mods, touch = case["n"], case["M"], case["mods"], case["touch_inv"]
    A = np.array(M, dtype=np.int64).reshape(n, n)
    gens = []
    ck.case(["shared-buffer", n, M, mods, touch], True, sample={"op": "shared buffer", "n": n, "mods": mods})
    ck.count("matrix:shared caller buffer")
    try:
        for m, t in zip(mods, touch):
            g = MatrixGenerator.create(A, modulo=m)
            if t:
                _ = g.inv
            gens.append(g)
        invs = [g.inv for g in gens]
    except (AssertionError, ValueError, np.linalg.LinAlgError) as ex:
        ck.violation("C10/matrix/shared-buffer/error", f"creating / inverting generators from one int64 array raised {type(ex).__name__}: {ex}", {"case": case})
        return
    for m, g, gi in zip(mods, gens, invs):
        B = m if m > 0 else 1 << 64
        want = [v % B for v in M]
        got = [int(x) % B for x in g.matrix.reshape(-1)]
        Ir = [int(x) % B for x in gi.matrix.reshape(-1)]
        eye = [int(r == c) for r in range(n) for c in range(n)]
        prod = [sum(want[r * n + j] * Ir[j * n + c] for j in range(n)) % B for r in range(n) for c in range(n)]
        if got != want or prod != eye:
            ck.violation("C10/matrix/shared-buffer", "a generator created from a caller's array no longer stands for that matrix (or its inverse does not undo it) after the array was used for another generator", {"case": case, "modulo": m, "stored": got, "expected": want, "inverse_ok": prod == eye})
            return


def main():
    ck = Check("C10")
    rng = ck.rng
    ck.lean_obligations("CvProps.C10", THEOREMS)
    if not ck.replay:
        from cv.pygen_corr import gen_tie  # noqa: E402

        gen_tie(ck, "C10g", GEN_THEOREMS, ("graphdef",))
    drv = ck.driver()
    if ck.replay:
        body = json.load(open(os.path.join(VERIF, ck.replay) if not os.path.isabs(ck.replay) else ck.replay))
        c = body["case"]
        if "mods" in c:
            check_shared_buffer(ck, c)
        elif "mats" in c:
            check_matrix_def(ck, drv, c["n"], c["modulo"], c["mats"], c.get("central"))
        elif "M" in c:
            check_matrix(ck, drv, c["n"], c["modulo"], c["M"])
        else:
            check_perm_def(ck, drv, c["gens"], c.get("names"), c.get("central"), c.get("name", ""))
        ck.finish(rule="replay of one recorded case")
    # exhaustive: all generator lists over n = 3 with up to 3 generators (repeats allowed); n = 4 with up to 2 (thorough: 3 for n=3.. same)
    for n, kmax in ((2, 3), (3, 3 if ck.thorough else 2), (4, 2 if ck.thorough else 1)):
        perms = [list(p) for p in itertools.permutations(range(n))]
        for k in range(1, kmax + 1):
            for gens in itertools.product(perms, repeat=k):
                check_perm_def(ck, drv, [list(g) for g in gens], None, None, "")
                ck.count(f"exhaustive:n={n}:k={k}")
    for _ in range(150 if not ck.thorough else 6000):
        if ck.enough():
            break
        n = rng.randint(2, 12)
        k = rng.randint(1, 4)
        gens = [graphs.rand_perm(rng, n) for _ in range(k)]
        r = rng.random()
        if r < 0.3:
            gens.append(graphs.inv_perm(gens[0]))
        if r < 0.15:
            gens.append(list(gens[0]))
        if 0.3 < r < 0.45:
            gens.append(list(range(n)))
        if 0.45 < r < 0.6:
            gens = gens + [graphs.inv_perm(p) for p in gens]
        names = None if rng.random() < 0.4 else [rng.choice(["a", "b", "L", "R'", "x1"]) + str(i) for i in range(len(gens))]
        central = None if rng.random() < 0.5 else [rng.randrange(min(n, 4)) for _ in range(n)]
        check_perm_def(ck, drv, gens, names, central, rng.choice(["", "", "lrx-7", "g"]))
    # create_graph(make_inverse_closed=True)
    for _ in range(20):
        n = rng.randint(3, 7)
        gens = [graphs.rand_perm(rng, n) for _ in range(2)]
        g = create_graph(generators_permutations=gens, make_inverse_closed=True)
        ck.case(["create_graph-ic", gens], True)
        if not g.definition.generators_inverse_closed or g.definition.generators_permutations[:2] != gens:
            ck.violation("C10/create_graph", "create_graph(make_inverse_closed=True) is not an inverse-closed extension", {"case": {"gens": gens}})
    # matrices: unimodular integer matrices (modulo 0) and modular matrices with an integer inverse
    for _ in range(500 if not ck.thorough else 20000):
        if ck.enough():
            break
        n = rng.choice([2, 2, 3, 3, 4])
        big = rng.choice([3, 10, 100, 1000])
        M = unimodular(rng, n, rng.randint(1, 8), big)
        if max(abs(v) for v in M) >= 10**6:
            continue
        modulo = rng.choice([0, 0, 0, 7, 10, 2**31 - 1])
        if modulo > 0:
            Mr = [v % modulo for v in M]
            ex = exact_inverse(Mr, n)
            if ex is None or not all(v.denominator == 1 for v in ex):
                # reduced representative has no integer inverse: outside the guaranteed domain; still check soundness
                pass
        check_matrix(ck, drv, n, modulo, M)
    # one caller-owned int64 array used for several generators (entries outside [0, m): negative, large)
    for _ in range(40 if not ck.thorough else 1500):
        if ck.enough():
            break
        n = rng.choice([2, 3, 3, 4])
        # unitriangular with entries of both signs: its reduction mod every m has an integer inverse only when ... so use
        # products of elementary matrices with entries in {-1, 0, 1} whose reduced representatives stay unimodular:
        M = [int(r == c) for r in range(n) for c in range(n)]
        for r in range(n):
            for c in range(r + 1, n):
                M[r * n + c] = rng.choice([-1, 1, 0, -1])
        mods = rng.sample([0, 0, 5, 7, 12, 101, 1000], rng.randint(2, 3))
        ok = True
        for m in mods:
            Mr = [v % m for v in M] if m > 0 else M
            ex = exact_inverse(Mr, n)
            ok = ok and ex is not None and all(v.denominator == 1 for v in ex)
            # same domain as check_matrix: float inversion is claimed only for well-conditioned matrices
            ok = ok and n * n * max(1, max(abs(v) for v in Mr)) * max(1, max(abs(int(v)) for v in ex)) ** 2 < 2**40
        if not ok:
            ck.count("matrix:shared buffer skipped (outside the guaranteed inversion domain)")
            continue
        ck.guard(check_shared_buffer, ck, {"n": n, "M": M, "mods": mods, "touch_inv": [rng.random() < 0.5 for _ in mods]})
    for _ in range(60 if not ck.thorough else 2000):
        n = rng.choice([2, 3])
        modulo = rng.choice([0, 0, 5])
        mats = [unimodular(rng, n, rng.randint(1, 3), 2) for _ in range(rng.randint(1, 3))]
        if modulo > 0:
            ok = True
            for M in mats:
                ex = exact_inverse([v % modulo for v in M], n)
                ok = ok and ex is not None and all(v.denominator == 1 for v in ex)
            if not ok:
                continue
        if rng.random() < 0.4:
            ex = exact_inverse([v % modulo if modulo else v for v in mats[0]], n)
            mats.append([int(v) for v in ex])
        if modulo > 0:
            # every reduced representative must itself have an integer inverse (modular-only inverses are out of domain)
            red = [exact_inverse([v % modulo for v in M], n) for M in mats]
            if any(e is None or not all(v.denominator == 1 for v in e) for e in red):
                continue
        check_matrix_def(ck, drv, n, modulo, mats, None)
    # singular / non-unimodular matrices must be rejected (soundness side)
    for _ in range(100):
        n = rng.choice([2, 3])
        M = [rng.randint(-3, 3) for _ in range(n * n)]
        check_matrix(ck, drv, n, rng.choice([0, 7]), M)
    # large elementary matrices (n >= 33: more than 1000 entries), several per size, differing only in entries far from the
    # corners, inverted one after the other in one process and then as one definition: every inverse is judged against the
    # matrix it was asked for (whatever was inverted before)
    for n in ((33, 40) if not ck.thorough else (33, 40, 48, 64)):
        modulo = rng.choice([0, 0, 7, 10])
        mats = []
        for _ in range(5):
            i, j = rng.sample(range(6, n - 6), 2)
            M = [int(r == c) for r in range(n) for c in range(n)]
            M[i * n + j] = rng.choice([1, -1, 2, 3])
            mats.append(M)
        for M in mats:
            if ck.enough():
                break
            ck.count("matrix:large-elementary")
            check_matrix(ck, drv, n, modulo, M)
        if not ck.enough():
            check_matrix_def(ck, drv, n, modulo, [[v % modulo if modulo else v for v in M] for M in mats][:3], None)
    ck.assumptions = [
        "np.linalg.inv (IEEE floats) is an oracle of the model: the theorem inv_sound holds for every candidate; completeness (success for every matrix with an integer inverse) is covered by the correspondence only, for entries below 2^20 with inverse entries below 2^40",
        "modular matrices invertible only modulo m are outside the guaranteed domain (documented as not implemented)",
    ]
    ck.finish(rule="all permutation generator lists over n = 2 (<= 3 gens), n = 3 (<= 2; 3 thorough), n = 4 (1; 2 thorough) exhaustively, random lists to n = 12 with repeats / identity / inverses / names / central states; products of elementary integer matrices (det +-1) for modulo 0 / 7 / 10 / 2^31-1 against an exact rational inverse; matrix definitions; singular matrices")


if __name__ == "__main__":
    from cv.core import run_main

    run_main(main)
