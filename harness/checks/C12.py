"""C12 — automatic path finding returns only valid paths, shortest within its BFS radius."""

import json
import os
import sys

sys.path.insert(0, os.path.join(os.path.dirname(__file__), ".."))

from cv import algos, graphs  # noqa: E402
from cv.core import VERIF, Check  # noqa: E402
from cayleypy import find_path  # noqa: E402

THEOREMS = [
    "Cv.C12.precomputeBfs_isBall",
    "Cv.C12.findPath_valid",
    "Cv.C12.findPath_shortest",
    "Cv.C12.findPath_core",
    "Cv.C12e.encoded_precomputeBfs_isBall",
    "Cv.C12e.encoded_findPath_valid",
    "Cv.C12e.encoded_findPath_shortest",
    "Cv.C12e.plain_findPath_valid",
    "Cv.C12e.plain_findPath_shortest",
    "Cv.C12e.encoded_findPath_valid_single_word",
    "Cv.C12e.encoded_findPath_shortest_single_word",
    "Cv.C12e.encoded1d_findPath_eq",
    "Cv.C12m.mat_precomputeBfs_isBall",
    "Cv.C12m.mat_findPath_valid",
    "Cv.C12m.mat_findPath_shortest",
]


def inverted_gdef(gd: graphs.GDef):
    if gd.kind == "perm":
        return graphs.GDef("perm", [graphs.inv_perm(p) for p in gd.gens], gd.central)
    c = gd.inverse_candidates()
    if c is None:
        return None
    gens = [[x % gd.modulo if gd.modulo > 0 else x for x in m] for m in c]
    return graphs.GDef("mat", gens, gd.central, n=gd.n, m=gd.m, modulo=gd.modulo)


def run_case(ck: Check, case: dict):
    gd = graphs.GDef.from_json(case["gd"])
    cfg, queries = case["cfg"], case["queries"]  # queries: list of (start_state, kwargs)
    ctx = algos.Ctx(ck, gd, cfg, extra_states=[q[0] for q in queries])
    if not ctx.ok:
        ck.count("skipped:" + ctx.reason.split(":")[0])
        return
    g = ctx.g
    ic = g.definition.generators_inverse_closed
    gdi = gd if ic else inverted_gdef(gd)
    ball_layers = gdi.brute_layers(cap=10**6)
    for qi, (start, kw) in enumerate(queries):
        maxd = kw.get("max_diameter") or 50
        depth = min(maxd, len(ball_layers) - 1)
        if "max_layer_size_to_explore" in kw:
            # documented rule: the ball ends with the first new layer that has at least that many states
            hit = next((i for i in range(1, len(ball_layers)) if len(ball_layers[i]) >= kw["max_layer_size_to_explore"]), None)
            if hit is not None:
                depth = min(depth, hit)
                ck.count("ball ended by the layer-size limit" if hit <= depth else "layer-size limit not reached")
        dmap = ctx.dists_from(start)
        d = dmap.get(gd.pack(gd.central))
        reach = d is not None and d <= 2 * depth
        ck.case(["find_path", gd.key(), cfg, start, kw], True, sample={"gd_tag": gd.tag, "inverse_closed": ic, "kwargs": kw, "true_dist": d, "ball_depth": depth})
        ck.traces += 1
        ck.count(("closed:" if ic else "directed:") + ("reachable<=2D" if reach else "beyond-2D" if d is not None else "unreachable"))
        st, p = algos.call(find_path, g, list(start), **kw)
        rep = {"case": dict(case, queries=queries[: qi + 1]), "failing_query_index": qi, "true_distance": d, "ball_depth": depth}
        if st != "ok":
            ck.violation("C12/error", "find_path raised: " + p, dict(rep, observed=p))
            continue
        me = kw.get("max_layer_size_to_explore", -1)
        md = kw.get("max_diameter", -1)
        mres = algos.parse_path_res(ctx.drv.ask(f"findpath {me} {md} ; {gd.pack(start)}"))
        if p is not None:
            end = ctx.apply_path(start, p)
            if end != tuple(gd.central):
                ck.violation("C12/invalid", "returned path does not lead from the start state to the central state", dict(rep, observed=p, replay_end=end))
                continue
            if reach and len(p) != d:
                ck.violation("C12/not-shortest", "path is not shortest although the true distance is within twice the BFS depth", dict(rep, observed=p))
                continue
            if not reach:
                ck.count("found-beyond-radius (allowed)")
        else:
            if reach:
                ck.violation("C12/missed" + ("/after-other-limits" if qi > 0 else ""), "nothing returned although a path within twice the BFS depth exists", rep)
                continue
        if (mres[0] == "found") != (p is not None) or (p is not None and len(mres[1]) != len(p)):
            ck.correspondence_break("findPath: model and implementation differ (found / length)", dict(rep, model=mres, impl=p))
        elif p is not None and mres[1] != p:
            ck.count("drift:find_path path differs (non-binding)")
        ev = graphs.drain_events()
        if ev:
            ck.violation("C12/events", "library event during find_path: " + str(ev[0])[:100], dict(rep, events=[str(e)[:200] for e in ev[:3]]))


def gen_case(ck, cap):
    rng = ck.rng
    for _ in range(400):
        gd = graphs.gen_def(rng, mat_share=0.15)
        if gd.kind == "mat" and gd.inverse_candidates() is None:
            continue
        layers = gd.brute_layers(cap=cap)
        if layers is None or len(layers) < 3:
            continue
        orbit = [s for l in layers for s in l]
        ecc = len(layers) - 1
        queries = []
        for _ in range(rng.randint(2, 5)):
            s = list(rng.choice(orbit))
            if rng.random() < 0.12:
                s = list(gd.central)  # distance 0: the empty path
            elif rng.random() < 0.15:
                s = list(gd.central)
                if gd.kind == "perm":
                    s[rng.randrange(len(s))] = rng.choice(gd.central)
            kw = {}
            if rng.random() < 0.6:
                kw["max_diameter"] = rng.choice([1, 2, max(1, ecc // 2), ecc, ecc + 3])
            if rng.random() < 0.3:
                sizes = [len(l) for l in layers]
                kw["max_layer_size_to_explore"] = rng.choice([10**6, 10**5, 1, 2, rng.choice(sizes), rng.choice(sizes) + 1, max(sizes), max(1, rng.choice(sizes) - 1)])
            queries.append([s, kw])
        if rng.random() < 0.35:
            # both limits changed in opposite directions between two calls on the same object (neither layer limit binds):
            # the second call must work with the ball of ITS limits
            big, small = rng.sample([10**6, 10**5, 5 * 10**4, 10**4 + 1], 2)
            big, small = max(big, small), min(big, small)
            d1 = rng.randint(1, max(1, ecc // 3))
            far = [list(x) for l in layers[min(ecc, 2 * d1 + 1) :] for x in l] or orbit
            queries = [[list(rng.choice(orbit)), {"max_layer_size_to_explore": big, "max_diameter": d1}], [list(rng.choice(far)), {"max_layer_size_to_explore": small, "max_diameter": rng.randint(d1 + 1, ecc + 1)}]] + queries[:2]
        return {"gd": gd.to_json(), "cfg": graphs.gen_cfg(rng, gd), "queries": queries}
    raise RuntimeError("no case")


def main():
    ck = Check("C12")
    if ck.replay:
        body = json.load(open(os.path.join(VERIF, ck.replay) if not os.path.isabs(ck.replay) else ck.replay))
        ck.guard(run_case, ck, body["case"])
        ck.finish(rule="replay of one recorded case")
    ck.lean_obligations(["CvProps.C12", "CvProps.C12e", "CvProps.C12m"], THEOREMS)
    for case in json.load(open(os.path.join(VERIF, "harness", "corpus", "C12.json"))):
        ck.guard(run_case, ck, case)
        ck.count("corpus")
    for _ in range(60 if not ck.thorough else 2000):
        if ck.enough():
            break
        ck.guard(run_case, ck, gen_case(ck, 700 if not ck.thorough else 15000))
    ck.assumptions = ["graphs with a pre-trained model need the network and are outside the offline domain (stated, not claimed)", "hash injective on everything touched"]
    ck.finish(rule="generated definitions (inverse-closed and not) x several queries on ONE graph object (cache) with varying BFS limits x reachable / unreachable start states; judged by Spec distances from the start state and replay with plain integer arithmetic")


if __name__ == "__main__":
    from cv.core import run_main

    run_main(main)
