"""C07 — random walks only visit real vertices along real edges with honest step counts."""

import json
import os
import sys

sys.path.insert(0, os.path.join(os.path.dirname(__file__), ".."))

import numpy as np  # noqa: E402
import torch  # noqa: E402

from cv import algos, graphs  # noqa: E402
from cv.core import VERIF, Check  # noqa: E402

THEOREMS = [
    "Cv.walksClassic_spec",
    "Cv.c6w_draws",
    "Cv.walksNbt_spec",
    "Cv.walksBfs_spec",
    "Cv.c6w_inj",
    "Cv.walksBfs_exact",
    "Cv.walksBfs_exact_sharp",
    "Cv.c6w_layers",
    "Cv.c6w_layer",
    "Cv.c6w_ecc",
    "Cv.c6w_wide",
    "Cv.C07e.encoded_walksClassic_spec",
    "Cv.C07e.encoded_walksNbt_spec",
    "Cv.C07e.encoded_walksBfs_spec",
    "Cv.C07e.encoded_walksBfs_exact",
    "Cv.C07e.plain_walksClassic_spec",
    "Cv.C07e.plain_walksNbt_spec",
    "Cv.C07e.plain_walksBfs_spec",
    "Cv.C07e.plain_walksBfs_exact",
]


class DrawRecorder:
    """Records torch.randint / torch.randperm results while active."""

    def __init__(self):
        self.randint = []
        self.randperm = []

    def __enter__(self):
        self.o1, self.o2 = torch.randint, torch.randperm

        def ri(*a, **kw):
            out = self.o1(*a, **kw)
            self.randint.append(out.reshape(-1).tolist())
            return out

        def rp(*a, **kw):
            out = self.o2(*a, **kw)
            self.randperm.append(out.tolist())
            return out

        torch.randint, torch.randperm = ri, rp
        return self

    def __exit__(self, *exc):
        torch.randint, torch.randperm = self.o1, self.o2
        return False


def exact_reach(gd, start, steps):
    cur = {tuple(start)}
    out = [cur]
    for _ in range(steps):
        cur = {gd.act(i, s) for s in cur for i in range(len(gd.gens))}
        out.append(cur)
    return out


def run_case(ck: Check, case: dict):
    gd = graphs.GDef.from_json(case["gd"])
    cfg = case["cfg"]
    start = case["start"]  # None = default
    s0 = list(gd.central) if start is None else list(start)
    ctx = algos.Ctx(ck, gd, cfg, extra_states=[s0])
    if not ctx.ok:
        ck.count("skipped:" + ctx.reason.split(":")[0])
        return
    g = ctx.g
    mode, width, length, hist, container = (case[k] for k in ["mode", "width", "length", "hist", "container"])
    kw = {"width": width, "length": length, "mode": mode}
    if mode == "nbt":
        kw["nbt_history_depth"] = hist
    if start is not None:
        kw["start_state"] = {"list": list(start), "numpy": np.array(start, dtype=np.int64), "tensor": torch.tensor(start, dtype=torch.int64)}[container]
    with DrawRecorder() as rec:
        st, res = algos.call(g.random_walks, **kw)
    ck.case(["walks", gd.key(), cfg, {k: case[k] for k in case if k not in ("gd", "cfg")}], True, sample={k: case[k] for k in case if k != "gd"} | {"gd_tag": gd.tag})
    ck.traces += 1
    ck.count("mode:" + mode + (f":hist={hist}" if mode == "nbt" else ""))
    ck.count("start:" + ("default" if start is None else container))
    ck.count("kind:" + gd.kind)
    rep = {"case": case}
    if st != "ok":
        ck.violation(f"C07/error/{mode}/start={'default' if start is None else container}", "random_walks raised: " + res, dict(rep, observed=res))
        return
    x, y = res
    size = len(gd.central)
    xs = [tuple(r) for r in np.asarray(x).reshape(-1, size).tolist()]
    ys = [int(v) for v in y.tolist()]
    if len(xs) != len(ys) or not xs:
        ck.violation(f"C07/shape/{mode}", "x and y have different lengths or are empty", dict(rep, observed={"x": len(xs), "y": len(ys)}))
        return
    if xs[0] != tuple(s0) or ys[0] != 0:
        ck.violation(f"C07/first-row/{mode}", "output does not start with the start state at step 0", dict(rep, observed={"x0": xs[0], "y0": ys[0]}))
        return
    reach = exact_reach(gd, s0, max(ys))
    bad = [k for k in range(len(xs)) if ys[k] < 0 or xs[k] not in reach[ys[k]]]
    if bad:
        k = bad[0]
        ck.violation(f"C07/dishonest-y/{mode}" + (f"/hist={hist}" if mode == "nbt" else ""), "a returned state is not reachable from the start state by a walk of exactly y edges", dict(rep, observed={"row": k, "x": xs[k], "y": ys[k]}))
        return
    if mode == "classic":
        if len(xs) != width * length or any(ys[k] != k // width for k in range(len(ys))):
            ck.violation("C07/classic/rows-or-y", "classic mode must return width*length rows with y = 0..length-1 per block", dict(rep, observed={"rows": len(xs), "y": ys[:20]}))
            return
        for k in range(len(xs) - width):
            if xs[k + width] not in {gd.act(i, xs[k]) for i in range(len(gd.gens))}:
                ck.violation("C07/classic/not-an-edge", "consecutive states of a walk are not joined by an edge", dict(rep, observed={"row": k, "from": xs[k], "to": xs[k + width]}))
                return
    if mode == "bfs":
        if len(set(xs)) != len(xs):
            ck.violation("C07/bfs/repeated-state", "BFS-mode output contains a state twice", dict(rep, observed={"rows": len(xs), "distinct": len(set(xs))}))
            return
        dl = ctx.spec_layers([gd.pack(s0)])
        if width >= max(len(l) for l in dl) and length > len(dl) - 1:
            want = sorted((s, i) for i, l in enumerate(dl) for s in l)
            got = sorted((gd.pack(s), v) for s, v in zip(xs, ys))
            ck.count("bfs:wide-and-long")
            if want != got:
                ck.violation("C07/bfs/not-exact-when-wide", "wide and long BFS-mode walk is not exactly all vertices with true distances", dict(rep, observed={"rows": len(xs), "expected_rows": len(want)}))
                return
    # ---- correspondence with the model under the recorded draws
    sp = gd.pack(s0)
    if mode == "classic":
        line = f"walks.classic {width} {length} ; {sp} ; " + " | ".join(" ".join(map(str, d)) for d in rec.randint)
    elif mode == "bfs":
        line = f"walks.bfs {width} {length} ; {sp} ; " + " | ".join(" ".join(map(str, d)) for d in rec.randperm)
    else:
        line = f"walks.nbt {width} {length} {hist} ; {sp} ; " + " | ".join(" ".join(map(str, d)) for d in rec.randperm)
    m = ctx.drv.ask(line)
    model = [tuple(int(v) for v in t.split(",")) for t in m.split()]
    impl = [(gd.pack(s), v) for s, v in zip(xs, ys)]
    if model != impl:
        if sorted(model) == sorted(impl):
            ck.count("drift:walk rows in different order (non-binding)")
        else:
            ck.correspondence_break(f"random walks ({mode}): model and implementation differ under the recorded draws", dict(rep, first_diff=next((i for i, (a, b) in enumerate(zip(model, impl)) if a != b), min(len(model), len(impl))), model_rows=len(model), impl_rows=len(impl)))
    ev = graphs.drain_events()
    if ev:
        ck.violation("C07/events", "library event during random walks: " + str(ev[0])[:100], dict(rep, events=[str(e)[:200] for e in ev[:3]]))


def gen_case(ck, cap):
    rng = ck.rng
    for _ in range(400):
        gd = graphs.gen_def(rng, mat_share=0.25)
        layers = gd.brute_layers(cap=cap)
        if layers is None or len(layers) < 2:
            continue
        orbit = [s for l in layers for s in l]
        mode = rng.choice(["classic", "bfs", "bfs", "nbt", "nbt"])
        wide = rng.random() < 0.25
        width = max(len(l) for l in layers) + rng.randint(0, 2) if wide else rng.choice([1, 2, 3, 5, 8, 20, 40])
        length = len(layers) + rng.randint(1, 3) if wide else rng.choice([1, 2, 3, 5, 10, 25, 40])
        start = None if rng.random() < 0.4 else list(rng.choice(orbit))
        return {
            "gd": gd.to_json(),
            "cfg": graphs.gen_cfg(rng, gd),
            "start": start,
            "mode": mode,
            "width": width,
            "length": length,
            "hist": rng.choice([0, 0, 1, 2, 3]),
            "container": rng.choice(["list", "numpy", "tensor"]),
        }
    raise RuntimeError("no case")


def gen_hashset_case(rng):
    """Sequences of sorted, pairwise disjoint int64 batches for TorchHashSet (the seen set of BFS-mode walks): values
    over the whole signed 64-bit range incl. the extremes, clustered values, 1..4 values per batch, up to 35 batches
    (the set merges its tensors at every 10th)."""
    lo, hi = -(2**63), 2**63 - 1
    style = rng.choice(["uniform", "extremes", "cluster", "mixed", "two-clusters", "two-clusters"])
    used, batches = set(), []
    for _ in range(rng.randint(1, 35) if style != "two-clusters" else rng.randint(10, 32)):
        b = set()
        for _ in range(rng.randint(1, 4) if style != "two-clusters" else 1):
            r = rng.random()
            if style == "two-clusters":
                # members near both ends of the int64 range and (mostly) nothing in between: neighbouring members
                # of the sorted set are then 2^63 or more apart, where int64 differences wrap
                v = lo + rng.randint(0, 2**rng.randint(1, 62)) if r < 0.45 else hi - rng.randint(0, 2**rng.randint(1, 62)) if r < 0.9 else rng.randint(lo, hi)
            elif style == "uniform" or (style == "mixed" and r < 0.5):
                v = rng.randint(lo, hi)
            elif style == "extremes" or (style == "mixed" and r < 0.8):
                v = rng.choice([lo, lo + 1, hi, hi - 1, 0, -1, 1, 2**62, -(2**62), 2**63 - 2**32, lo + rng.randint(0, 50), hi - rng.randint(0, 50)])
            else:
                v = rng.randint(-40, 40)
            if v not in used:
                b.add(v)
                used.add(v)
        if b:
            batches.append(sorted(b))
    members = sorted(used)
    q = members + [min(hi, v + 1) for v in members[:8]] + [max(lo, v - 1) for v in members[:8]] + [rng.randint(lo, hi) for _ in range(5)] + [lo, hi, 0]
    rng.shuffle(q)
    return {"op": "hashset", "batches": batches, "queries": q}


def run_hashset(ck: Check, case: dict):
    """TorchHashSet is a set: after adding batches, a value is reported 'seen' exactly when it was added; also compared
    tensor by tensor with the model `HashSetM` (theorems HashSetM.addSorted_inv / unseen_iff carry the set semantics)."""
    from cayleypy.torch_utils import TorchHashSet

    batches, q = case["batches"], case["queries"]
    hs = TorchHashSet()
    for b in batches:
        hs.add_sorted_hashes(torch.tensor(b, dtype=torch.int64))
    keep = hs.get_mask_to_remove_seen_hashes(torch.tensor(q, dtype=torch.int64)).tolist()
    members = {v for b in batches for v in b}
    ck.case(["hashset", batches, q], len(batches) >= 10, sample={"op": "TorchHashSet", "batches": len(batches), "values": len(members), "span": max(members) - min(members)})
    ck.count("hashset:" + ("merged" if len(batches) >= 10 else "unmerged"))
    if any(b - a >= 2**63 for a, b in zip(sorted(members), sorted(members)[1:])):
        ck.count("hashset: neighbouring members >= 2^63 apart")
    wrong = [v for v, k in zip(q, keep) if bool(k) != (v not in members)]
    if wrong:
        ck.violation(
            "C07/hashset/" + ("forgets-member" if any(v in members for v in wrong) else "phantom-member"),
            "TorchHashSet (the seen set of BFS-mode random walks) answers membership wrongly: a forgotten hash lets a walk emit the same state twice",
            {"case": case, "wrong_values": wrong[:10], "data": [t.tolist() for t in hs.data]},
        )
        return
    out = ck.driver().ask("hset ; " + " ".join(map(str, q)) + " ; " + " ; ".join(" ".join(map(str, b)) for b in batches))
    data_m, keep_m = out.split(" ; ")
    data_i = " | ".join(" ".join(map(str, t.tolist())) for t in hs.data)
    if keep_m.split() != [str(int(bool(k))) for k in keep]:
        ck.correspondence_break("TorchHashSet and model HashSetM differ (membership)", {"case": case, "model": out, "impl_data": data_i})
    elif data_m.strip() != data_i.strip():
        # how the set splits its members over tensors (when it merges) is not observable through the property
        ck.count("drift:TorchHashSet tensor layout differs from HashSetM (non-binding)")


def run_huge_classic(ck: Check, case: dict):
    """Classic walks with more than 2^24 rows on a two-vertex graph (one generator: the swap): row i of the output is
    step i // width of walk i % width, so y[i] = i // width and x[i] = the start state swapped y[i] times."""
    from cayleypy import CayleyGraph, CayleyGraphDef

    width, length, enc = case["width"], case["length"], case["bit_encoding_width"]
    g = CayleyGraph(CayleyGraphDef.create([[1, 0]], central_state=[0, 1]), device="cpu", bit_encoding_width=enc)
    st, out = algos.call(g.random_walks, width=width, length=length, mode="classic", limit_s=300)
    ck.case(["huge-classic", width, length, enc], True, sample={"op": "huge classic walk", "rows": width * length})
    ck.count("huge classic walks (> 2^24 rows)")
    if st != "ok":
        ck.violation("C07/classic/huge/error", "classic walks raised: " + out, {"case": case})
        return
    x, y = (np.asarray(t) for t in out)
    n = width * length
    want_y = np.arange(n, dtype=np.int64) // width
    bad = None
    if x.shape[0] != n or y.shape[0] != n:
        bad = f"{x.shape[0]} rows instead of width*length = {n}"
    elif not np.array_equal(y.astype(np.int64), want_y):
        i = int(np.nonzero(y.astype(np.int64) != want_y)[0][0])
        bad = f"y[{i}] = {int(y[i])} but row {i} is step {int(want_y[i])} of its walk"
    elif not np.array_equal(x.reshape(n, 2)[:, 0].astype(np.int64), want_y % 2):
        i = int(np.nonzero(x.reshape(n, 2)[:, 0].astype(np.int64) != want_y % 2)[0][0])
        bad = f"x[{i}] is not the state reached after {int(want_y[i])} swaps"
    if bad:
        ck.violation("C07/classic/huge", "classic walk with more than 2^24 rows: " + bad, {"case": case})


def main():
    ck = Check("C07")
    if ck.replay:
        body = json.load(open(os.path.join(VERIF, ck.replay) if not os.path.isabs(ck.replay) else ck.replay))
        ck.guard(run_hashset if body["case"].get("op") == "hashset" else run_huge_classic if body["case"].get("op") == "huge-classic" else run_case, ck, body["case"])
        ck.finish(rule="replay of one recorded case (fresh random draws)")
    ck.lean_obligations(["CvProps.C07", "CvProps.C07e"], THEOREMS)
    for case in json.load(open(os.path.join(VERIF, "harness", "corpus", "C07.json"))):
        ck.guard(run_case, ck, case)
        ck.count("corpus")
    for _ in range(260 if not ck.thorough else 6000):
        if ck.enough():
            break
        ck.guard(run_case, ck, gen_case(ck, 600 if not ck.thorough else 6000))
    for _ in range(300 if not ck.thorough else 6000):
        if ck.enough():
            break
        ck.guard(run_hashset, ck, gen_hashset_case(ck.rng))
    # many generators, few parents, tight width: a one-hot word under the transpositions along the edges of a random
    # tree (the Schreier graph IS that tree: 17..40 generators, every vertex has one parent); BFS-mode walks whose width
    # is exactly the largest layer and whose length exceeds the diameter must return every vertex with its distance
    for _ in range(4 if not ck.thorough else 60):
        if ck.enough():
            break
        L = ck.rng.randint(18, 41)
        kind = ck.rng.choice(["random-tree", "spider", "star-of-paths"])
        parent = {v: (ck.rng.randrange(v) if kind == "random-tree" else (0 if v <= (L - 1) // 2 else v - (L - 1) // 2) if kind == "spider" else (0 if v < 6 else v - 5)) for v in range(1, L)}
        gens = []
        for v, u in parent.items():
            p = list(range(L))
            p[u], p[v] = v, u
            gens.append(p)
        ck.rng.shuffle(gens)
        central = [0] * L
        central[0] = 1
        gd = graphs.GDef("perm", gens, central, tag="tree-" + kind)
        layers = gd.brute_layers(cap=1000)
        cfg = graphs.gen_cfg(ck.rng, gd)
        case = {"gd": gd.to_json(), "cfg": cfg, "mode": "bfs", "width": max(len(l) for l in layers), "length": len(layers) + ck.rng.randint(1, 3), "start": None, "hist": 0, "container": "list"}
        ck.guard(run_case, ck, case)
        ck.count("tree graphs with tight width")
    # one run above 2^24 rows (float32 holds integers exactly only up to there), a larger one in the thorough tier
    for width, length in [(ck.rng.choice([4194305, 2**23, 5592407]), ck.rng.choice([3, 4, 5]))] + ([(2**24 + 3, 3), (3, 2**23 + 1)] if ck.thorough else []):
        if ck.enough():
            break
        if width * length <= 2**24:
            length = 2**24 // width + 2
        ck.guard(run_huge_classic, ck, {"op": "huge-classic", "width": width, "length": length, "bit_encoding_width": ck.rng.choice(["auto", None])})
    ck.assumptions = ["torch.randint / torch.randperm results are recorded and replayed by the model; the theorems hold for all draws"]
    ck.finish(rule="generated definitions x modes classic / bfs / nbt (history depth 0-3) x widths 1-40 (or wide) x lengths 1-40 (or long) x start default / list / ndarray / tensor x encodings; judged by exact-length reachability sets and Spec distances; plus TorchHashSet operation sequences (1-35 sorted disjoint batches over the whole int64 range) judged as a set and compared with the model HashSetM")


if __name__ == "__main__":
    from cv.core import run_main

    run_main(main)
