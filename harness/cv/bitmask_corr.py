"""Correspondence of the Lean model `CvModel/Bitmask.lean` with the helpers of cayleypy/algo/bfs_bitmask.py.

Builds (query line, expected answer computed by the REAL code, label, binding) tuples; the check sends the query lines
to the compiled driver (`bm ; <line>`) and compares.  `binding` is False for behaviour outside the property's domain
(which exception is raised for inputs the engine does not support): those differences are counted, not reported.
Adapted from the validation script delivered with the model (lean_incoming a14)."""

import importlib
import itertools
import warnings

import numpy as np

M64 = (1 << 64) - 1


def L(xs):
    return " ".join(str(int(x)) for x in xs)


def u64(x):
    return int(x) & M64


def rand_perm(rnd, n):
    p = list(range(n))
    rnd.shuffle(p)
    return p


def real_bfs(bm, gens, central, max_diameter):
    from cayleypy import CayleyGraph, CayleyGraphDef

    gdef = CayleyGraphDef.create(generators=gens, central_state=central)
    graph = CayleyGraph(gdef)
    try:
        return "OK " + L(bm.bfs_bitmask(graph, max_diameter=max_diameter))
    except IndexError:
        return "ERR Cv.Bitmask.BfsError.groupStartsEmpty"
    except AssertionError:
        return "ERR Cv.Bitmask.BfsError.assertion"
    except KeyError:
        return "ERR Cv.Bitmask.BfsError.keyError"
    except ValueError:
        return "ERR Cv.Bitmask.BfsError.hstackEmpty"
    except OverflowError:
        return "ERR Cv.Bitmask.BfsError.int64Overflow"


def kernel_queries(rnd, thorough=False):
    bm = importlib.import_module("cayleypy.algo.bfs_bitmask")
    from cayleypy.string_encoder import StringEncoder

    R = bm.R
    k = 4 if thorough else 1
    out = []

    def add(q, expected, label, binding=True):
        out.append((q, str(expected), label, binding))

    # 1. _encode_perm
    for _ in range(40 * k):
        p = rand_perm(rnd, rnd.randint(0, 16))
        add("ENC " + L(p), bm._encode_perm(p), "encode_perm")
    for _ in range(20 * k):
        p = [rnd.randint(0, 15) for _ in range(rnd.randint(0, 16))]
        x = bm._encode_perm(p)
        add("ENC " + L(p), x, "encode_perm(any fields)")
        add(f"DEC {len(p)} {x}", L(p), "decode(encode)")
    # 2. _bit_count (jitted; numba types the intermediate as int64 -> model BCN)
    edge = [0, 1, M64, 1 << 63, (1 << 63) | 1, 3 << 62, 0x5555555555555555, 0xAAAAAAAAAAAAAAAA, 0x3333333333333333, 0xCCCCCCCCCCCCCCCC,
            0x0F0F0F0F0F0F0F0F, 0xF0F0F0F0F0F0F0F0, 0x00FF00FF00FF00FF, 0xFF00FF00FF00FF00, 0x8080808080808080, 0x0101010101010101,
            0x7FFFFFFFFFFFFFFF, 0xFFFFFFFF00000000, 0xFFFFFFFE, 0xFF]  # fmt: skip
    words = edge + [rnd.getrandbits(64) for _ in range(120 * k)] + [rnd.getrandbits(64) & rnd.getrandbits(64) for _ in range(40 * k)]
    words += [rnd.getrandbits(64) | rnd.getrandbits(64) | rnd.getrandbits(64) for _ in range(40 * k)]
    for w in words:
        real = int(bm._bit_count(np.array([w], dtype=np.uint64)))
        add(f"BC {w}", real, "bit_count(word)")
        add(f"BCN {w}", real, "bit_count(word), numba int64 typing")
    with warnings.catch_warnings():
        warnings.simplefilter("ignore")
        for _ in range(15 * k):
            ws = [rnd.getrandbits(64) for _ in range(rnd.randint(0, 20))]
            add("BC " + L(ws), int(bm._bit_count(np.array(ws, dtype=np.uint64))), "bit_count(array)")
    # 3. prefix tables: ALL entries of PREFIX_MAP_1, PREFIX_MAP_2 on ALL valid codes (exhaustive) + random codes
    add(f"PM1ALL {R}", L(bm.PREFIX_MAP_1), "PREFIX_MAP_1 (all entries)")
    add(f"PM2L {R} | " + L(bm.PREFIX_MAP_1), L(bm.PREFIX_MAP_2[bm.PREFIX_MAP_1]), "PREFIX_MAP_2 on all valid codes")
    for _ in range(300 * k):
        e = rnd.randrange(2 ** (3 * R))
        add(f"PM2 {R} {e}", int(bm.PREFIX_MAP_2[e]), "PREFIX_MAP_2 (random code)")
    # 4.-6. VertexChunk, permutation_to_rank, rank_to_permutation, materialize
    for it in range(30 * k):
        n = rnd.randint(R, 15) if it % 4 else rnd.choice([R + 1, 15])
        p = rand_perm(rnd, n)
        suffix = tuple(p[R:])
        c = bm.VertexChunk(n, suffix)
        add(f"CHUNK {n} {R} | {L(suffix)}", f"{L(c.map1)} | {L(c.map2)} | {c.encoded_suffix} | true", "VertexChunk")
        xs, ranks = [], []
        for _ in range(10):
            pre = p[:R]
            rnd.shuffle(pre)
            x = bm._encode_perm(pre + list(suffix))
            xi = x - 2**64 if x >= 2**63 else x
            xs.append(x)
            ranks.append(int(bm.permutation_to_rank(xi, c.map2)))
        add(f"P2R {n} {R} | {L(suffix)} | {L(xs)}", L(ranks), "permutation_to_rank")
        rs = [0, bm.CHUNK_SIZE - 1] + [rnd.randrange(bm.CHUNK_SIZE) for _ in range(8)]
        exp = []
        for r in rs:
            a = int(bm.rank_to_permutation(r, c.map1))
            exp += [a, u64(c.encoded_suffix | a)]
        add(f"R2P {n} {R} | {L(suffix)} | {L(rs)}", L(exp), "rank_to_permutation")
    for it in range(4 * k):
        n = rnd.randint(R + 1, 15)
        p = rand_perm(rnd, n)
        c = bm.VertexChunk(n, tuple(p[R:]))
        ranks = sorted(rnd.sample(range(bm.CHUNK_SIZE), rnd.randint(1, 300)))
        for r in ranks:
            c.last_layer[r // 64] |= np.uint64(1 << (r % 64))
        c.changed_on_last_step = True
        c.last_layer_count = int(bm._bit_count(c.last_layer))
        real = [int(v) for v in c.materialize_last_layer_permutations()]
        exp = []
        for r, v in zip(ranks, real):
            exp += [int(bm.rank_to_permutation(r, c.map1)), u64(v)]
        add(f"R2P {n} {R} | {L(p[R:])} | {L(ranks)}", L(exp), "materialize_last_layer_permutations")
    # 7. suffix mask, chunk order
    for n in range(R, 16):
        add(f"MASK {n} {R}", (2 ** (4 * (n - R)) - 1) << (4 * R), "suffix_mask")
    for n in (R + 1, R + 2):
        add(f"SUFFIXES {n} {R}", " | ".join(L(s) for s in itertools.permutations(range(n), r=n - R)), "chunk order = itertools.permutations(range(n), r=n-R)")
    # 8. generator routines of the width-4 encoder
    for it in range(40 * k):
        n = rnd.randint(1, 16)
        g = rand_perm(rnd, n)
        f = StringEncoder(code_width=4, n=n).implement_permutation_1d(g)
        xs = [bm._encode_perm(rand_perm(rnd, n)) for _ in range(5)] + [rnd.getrandbits(4 * n) for _ in range(3)]
        arr = np.array([x if x < 2**63 else x - 2**64 for x in xs], dtype=np.int64)
        add(f"GEN {n} | {L(g)} | {L(xs)}", L(u64(v) for v in f(arr)), "implement_permutation_1d (width 4)")
    # 9. np.unique / group_starts
    for it in range(60 * k):
        m = rnd.randint(0, 30)
        xs = [rnd.randrange(12) for _ in range(m)] if it % 2 else [rnd.getrandbits(40) for _ in range(m)]
        add("UNIQ " + L(xs), L(np.unique(np.array(xs, dtype=np.int64))), "np.unique")
        keys = np.array(sorted(rnd.randrange(5) for _ in range(m)), dtype=np.int64)
        add("GS " + L(keys), L(np.where(np.roll(keys, 1) != keys)[0]), "group_starts (sorted keys)")
    return out


def bfs_query(bm, gens, central, d, label, binding=True):
    n = len(central)
    return (f"BFS {n} {bm.R} {d} | {L(central)} | " + " | ".join(L(g) for g in gens), real_bfs(bm, gens, central, d), label, binding)


def engine_queries(rnd, thorough=False):
    """Whole-engine runs, real vs model: inside the domain (binding) and the exception raised outside it (not binding)."""
    bm = importlib.import_module("cayleypy.algo.bfs_bitmask")
    n = 9
    ident = list(range(n))
    lx = [[1, 0] + list(range(2, n)), list(range(1, n)) + [0]]
    lrx = lx + [[n - 1] + list(range(n - 1))]
    out = [
        bfs_query(bm, lx, ident, 7, "bfs lx(9) depth 7"),
        bfs_query(bm, lrx, rand_perm(rnd, n), 6, "bfs lrx(9), random central state"),
        bfs_query(bm, [list(range(k, -1, -1)) + list(range(k + 1, n)) for k in range(1, n)], ident, 4, "bfs pancake(9) depth 4"),
        bfs_query(bm, lx, ident, 0, "bfs max_diameter=0"),
        bfs_query(bm, lx, ident, 1, "bfs max_diameter=1"),
        bfs_query(bm, [lx[1]], ident, 100, "bfs single generator (9-cycle)"),
        bfs_query(bm, [lx[0]], ident, 100, "bfs single generator fixing the trailing position"),
        # outside the documented domain: which exception
        bfs_query(bm, [lx[1], lx[1]], ident, 5, "out-of-domain: duplicate generator", binding=False),
        bfs_query(bm, [lx[0], [0, 2, 1] + list(range(3, n))], ident, 5, "out-of-domain: generators fixing the trailing position", binding=False),
        bfs_query(bm, [lx[1], [2, 1, 3, 4, 5, 6, 7, 8, 0]], ident, 5, "out-of-domain: generators agreeing on the trailing position", binding=False),
    ]
    for _ in range(4 if not thorough else 20):
        gens = [rand_perm(rnd, n) for _ in range(rnd.randint(2, 4))]
        out.append(bfs_query(bm, gens, rand_perm(rnd, n), rnd.randint(2, 5), "bfs random generators (9 points)"))
    n = 10
    lrx10 = [[1, 0] + list(range(2, n)), list(range(1, n)) + [0], [n - 1] + list(range(n - 1))]
    out.append(bfs_query(bm, lrx10, list(range(n)), 5, "bfs lrx(10) depth 5"))
    return out
