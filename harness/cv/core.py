"""Shared machinery of every check: Lean build + audit, driver pipe, evidence, violations, known findings."""

import fcntl
import hashlib
import json
import os
import random
import re
import subprocess
import sys
import time

VERIF = os.path.abspath(os.path.join(os.path.dirname(__file__), "..", ".."))
LEAN_DIR = os.path.join(VERIF, "lean")
REPO = os.environ.get("CV_REPO", "/repo")
DRIVER = os.path.join(LEAN_DIR, ".lake", "build", "bin", "cvdriver")
ALLOWED_AXIOMS = {"propext", "Classical.choice", "Quot.sound"}
FORBIDDEN = re.compile(r"\b(sorry|admit|native_decide|bv_decide|implemented_by|unsafe)\b|^\s*axiom\s|maxHeartbeats\s+0\b")

TRUSTED_BASE = [
    "Lean 4.33 kernel; axioms of every property theorem are checked to be within {propext, Classical.choice, Quot.sound}",
    "Lean compiler/runtime for the compiled driver that executes the model during the correspondence",
    "translators harness/extract/*.py (hash IR, constants) whose output is also compared bit-for-bit with the real functions",
    "the correspondence harness and its input generators (sampled unless stated exhaustive)",
    "torch / NumPy / numba / h5py kernels and CPython are modelled by their documented semantics, not verified",
]


def seed_from_env() -> int:
    try:
        return int(os.environ.get("VERIF_SEED", "0"))
    except ValueError:
        return 0


def sh(cmd, cwd=None, timeout=3600):
    return subprocess.run(cmd, cwd=cwd, shell=isinstance(cmd, str), capture_output=True, text=True, timeout=timeout)


class LeanBuild:
    """Regenerates CvGen from /repo, builds the lake project (incremental), audits theorems."""

    _built = False

    @classmethod
    def ensure(cls):
        if cls._built:
            return True, ""
        os.makedirs(os.path.join(LEAN_DIR, ".lake"), exist_ok=True)
        lock = open(os.path.join(LEAN_DIR, ".lake", "cv.lock"), "w")
        fcntl.flock(lock, fcntl.LOCK_EX)
        try:
            from extract import regen  # noqa: WPS433  (harness/extract)

            gen_msgs = regen.regenerate(REPO, LEAN_DIR)
            r = sh("lake build CvModel CvGen cvdriver 2>&1", cwd=LEAN_DIR, timeout=7200)
            ok = r.returncode == 0
            cls._built = ok
            cls.gen_msgs = gen_msgs
            return ok, (r.stdout + r.stderr)[-6000:]
        finally:
            fcntl.flock(lock, fcntl.LOCK_UN)
            lock.close()

    @staticmethod
    def build_module(module: str):
        """Builds one property module (and what it imports); a failure concerns that property only."""
        lock = open(os.path.join(LEAN_DIR, ".lake", "cv.lock"), "w")
        fcntl.flock(lock, fcntl.LOCK_EX)
        if not isinstance(module, str):
            module = " ".join(module)
        try:
            r = sh(f"lake build {module} 2>&1", cwd=LEAN_DIR, timeout=7200)
            return r.returncode == 0, (r.stdout + r.stderr)[-4000:]
        finally:
            fcntl.flock(lock, fcntl.LOCK_UN)
            lock.close()

    @staticmethod
    def forbidden_tokens():
        """grep for sorry/admit/axiom/native_decide/... outside comments in the Lean sources."""
        hits = []
        for root, _dirs, files in os.walk(LEAN_DIR):
            if ".lake" in root:
                continue
            for fn in files:
                if not fn.endswith(".lean"):
                    continue
                path = os.path.join(root, fn)
                text = open(path, encoding="utf-8").read()
                text = re.sub(r"/-.*?-/", lambda m: "\n" * m.group(0).count("\n"), text, flags=re.S)
                for ln, line in enumerate(text.split("\n"), 1):
                    code = line.split("--")[0]
                    if FORBIDDEN.search(code):
                        hits.append(f"{os.path.relpath(path, LEAN_DIR)}:{ln}: {line.strip()}")
        return hits

    @staticmethod
    def audit(module, theorems: list):
        """`#print axioms` for each theorem; returns {thm: (ok, axioms or error)}."""
        mods = [module] if isinstance(module, str) else list(module)
        src = "".join(f"import {m}\n" for m in mods) + "".join(f"#print axioms {t}\n" for t in theorems)
        path = os.path.join(LEAN_DIR, ".lake", f"audit_{mods[0].replace('.', '_')}_{os.getpid()}.lean")
        with open(path, "w") as f:
            f.write(src)
        try:
            r = sh(f"lake env lean {path} 2>&1", cwd=LEAN_DIR, timeout=1800)
        finally:
            try:
                os.remove(path)
            except OSError:
                pass
        out = r.stdout + r.stderr
        res = {}
        for t in theorems:
            m = re.search(r"'" + re.escape(t) + r"' depends on axioms: \[(.*?)\]", out, flags=re.S)
            m0 = re.search(r"'" + re.escape(t) + r"' does not depend on any axioms", out)
            if m0:
                res[t] = (True, [])
            elif m:
                axs = [a.strip() for a in m.group(1).replace("\n", " ").split(",") if a.strip()]
                res[t] = (set(axs) <= ALLOWED_AXIOMS, axs)
            else:
                res[t] = (False, ["<not found / does not check>"])
        return res, out[-3000:]


class Driver:
    """Pipe to the compiled Lean model (`cvdriver`)."""

    def __init__(self):
        self.p = subprocess.Popen([DRIVER], stdin=subprocess.PIPE, stdout=subprocess.PIPE, text=True, bufsize=1)
        self.lines = 0

    def ask(self, line: str) -> str:
        assert "\n" not in line
        self.p.stdin.write(line + "\n")
        self.p.stdin.flush()
        out = self.p.stdout.readline()
        if out == "":
            raise RuntimeError("cvdriver died on: " + line[:200])
        self.lines += 1
        return out.rstrip("\n")

    def close(self):
        try:
            self.p.stdin.close()
            self.p.wait(timeout=10)
        except Exception:  # pylint: disable=broad-except
            self.p.kill()


class CaseTimeout(Exception):
    pass


class time_limit:  # pylint: disable=invalid-name
    """SIGALRM-based wall-clock limit for one execution of the implementation (main thread only)."""

    def __init__(self, seconds):
        self.seconds = max(1, int(seconds))

    def _handler(self, signum, frame):
        raise CaseTimeout(f"no result within {self.seconds}s")

    def __enter__(self):
        import signal

        self._old = signal.signal(signal.SIGALRM, self._handler)
        signal.alarm(self.seconds)

    def __exit__(self, *exc):
        import signal

        signal.alarm(0)
        signal.signal(signal.SIGALRM, self._old)
        return False


def digest(obj) -> str:
    return hashlib.sha1(json.dumps(obj, sort_keys=True, default=str).encode()).hexdigest()[:16]


class _Again(Exception):
    """Raised by Check.finish when a further exploration round (fresh seeds) is due; see Check.finish."""


def run_main(main):
    """Runs a check's main(); an unexpected exception while processing what the implementation returned is not an
    infrastructure failure: it is recorded as a broken correspondence (the harness could not make sense of the
    implementation's behaviour) and the run ends with a proper VIOLATION line and evidence file."""
    while True:
        try:
            main()
        except _Again:
            continue
        except SystemExit:
            raise
        except BaseException as ex:  # pylint: disable=broad-except
            _run_main_failed(ex)
        return


def _run_main_failed(ex):
    import traceback

    ck = Check.current
    tb = traceback.format_exc()
    if ck is None:
        print(tb, file=sys.stderr)
        sys.exit(2)
    ck.correspondence_break(f"harness could not process the implementation's behaviour: {type(ex).__name__}: {ex}"[:300], {"traceback": tb[-1800:]})
    ck.finish(rule="(run aborted by an exception while processing the implementation's output; see broken)")


class Check:
    """One run of one property's check."""

    current = None
    _carry = None
    _real_stdout = None

    def guard(self, fn, *a, **kw):
        """Runs one case; an exception raised while handling the implementation's output becomes a broken correspondence
        for that case and exploration continues."""
        import traceback

        # Every case starts from the library's defaults: the hook-H4 knob (scaled-down default batch size, set by
        # `GDef.graph` for configurations with `derived_batch`) must not outlive the case that asked for it.  A stage that
        # builds its graphs directly (C18's layers above 2^16 rows) once inherited batch size 1 from the previous case and
        # split a 70 000-row layer into 70 000 batches - a run of hours, stopped as a timeout.
        try:
            import cayleypy.torch_utils as _tu

            getattr(_tu, "VERIF_KNOBS", {}).pop("default_batch_size", None)
        except ImportError:
            pass
        try:
            return fn(*a, **kw)
        except (SystemExit, KeyboardInterrupt):
            raise
        except Exception as ex:  # pylint: disable=broad-except
            self.correspondence_break(f"harness could not process the implementation's output: {type(ex).__name__}: {ex}"[:300], {"case": (a[1] if len(a) > 1 and isinstance(a[1], dict) else None), "traceback": traceback.format_exc()[-1500:]})
            return None

    def __init__(self, pid: str, argv=None):
        Check.current = self
        import argparse

        ap = argparse.ArgumentParser()
        ap.add_argument("--tier", default=os.environ.get("VERIF_TIER", "quick"))
        ap.add_argument("--replay", default=None)
        a = ap.parse_args(argv)
        self.pid = pid
        # the library prints progress when a graph is built with verbose > 0 (a configuration the checks exercise):
        # everything printed while the check runs is discarded; the result lines go to the real stdout
        if Check._real_stdout is None:
            Check._real_stdout = sys.stdout
            sys.stdout = open(os.devnull, "w")
        self.tier = a.tier if a.tier in ("quick", "thorough") else "quick"
        self.replay = a.replay
        self.seed = seed_from_env()
        carry = Check._carry  # state of the earlier exploration rounds of this run (see finish)
        Check._carry = None
        self.round = carry["round"] + 1 if carry else 0
        self.rng = random.Random(f"{pid}-{self.seed}" if self.round == 0 else f"{pid}-{self.seed}-round{self.round}")
        self.t0 = carry["t0"] if carry else time.time()
        self.evaluations = carry["evaluations"] if carry else 0
        self.distinct = carry["distinct"] if carry else set()
        self.hist = carry["hist"] if carry else {}
        self.samples = carry["samples"] if carry else []
        self.obligations = []  # (name, ok, detail)
        self._obligations_done = carry["obligations"] if carry else None
        self.violations = []  # dict
        self.broken = []  # broken proof obligations / correspondences (no failing input yet)
        self.known_hits = []
        self.traces = carry["traces"] if carry else 0
        self.programs = carry["programs"] if carry else 0
        self.extra = {}
        self.assumptions = []
        if carry:
            self.changed_sources = carry["changed_sources"]
        else:
            try:
                sys.path.insert(0, os.path.join(VERIF, "harness", "extract"))
                import pins  # noqa: E402

                self.changed_sources = pins.changed(os.environ.get("CV_REPO", "/repo"), pid)
            except Exception as ex:  # pylint: disable=broad-except
                self.changed_sources = [f"<pins unavailable: {type(ex).__name__}>"]
        self.known = json.load(open(os.path.join(VERIF, "known_findings.json")))["findings"]
        self._driver = None

    # ---------- infrastructure
    @property
    def thorough(self):
        return self.tier == "thorough"

    def driver(self) -> Driver:
        if self._driver is None:
            self._driver = Driver()
        return self._driver

    def count(self, key: str, n: int = 1):
        self.hist[key] = self.hist.get(key, 0) + n

    def case(self, key, nontrivial: bool = True, sample=None):
        """Counts one evaluated case; `key` identifies the canonical input."""
        self.evaluations += 1
        if nontrivial:
            self.distinct.add(digest(key))
        if sample is not None and len(self.samples) < 6:
            self.samples.append(sample)

    # ---------- proof obligations
    def lean_obligations(self, module: str, theorems: list):
        if self._obligations_done is not None:  # a further exploration round of the same run: already discharged
            self.obligations = list(self._obligations_done)
            return all(ok for _, ok, _ in self.obligations)
        ok, log = LeanBuild.ensure()
        if not ok:
            for t in theorems:
                self.obligations.append((t, False, "lake build failed"))
            self.broken.append({"what": f"lake build ({module})", "detail": log[-2500:]})
            return False
        for m in getattr(LeanBuild, "gen_msgs", []):
            if not m.get("ok", True) and self.pid in m.get("properties", [self.pid]):
                self.obligations.append((m["name"], False, m.get("detail", "")))
                self.broken.append({"what": m["name"], "detail": m.get("detail", "")})
        okm, logm = LeanBuild.build_module(module)
        if not okm:
            for t in theorems:
                self.obligations.append((t, False, "module does not build"))
            self.broken.append({"what": f"lake build {module}", "detail": logm[-2500:]})
            return False
        hits = LeanBuild.forbidden_tokens()
        self.obligations.append(("no sorry/admit/axiom/native_decide/bv_decide/implemented_by/unsafe in lean/", not hits, hits[:5]))
        if hits:
            self.broken.append({"what": "forbidden token in Lean sources", "detail": hits[:5]})
        # independent re-check of the compiled .olean files of this property's modules
        mods = [module] if isinstance(module, str) else list(module)
        rc = sh("lake env leanchecker " + " ".join(mods) + " 2>&1", cwd=LEAN_DIR, timeout=3600)
        self.obligations.append(("leanchecker re-checks " + " ".join(mods), rc.returncode == 0, (rc.stdout + rc.stderr)[-400:] if rc.returncode else ""))
        if rc.returncode != 0:
            self.broken.append({"what": "leanchecker " + " ".join(mods), "detail": (rc.stdout + rc.stderr)[-1500:]})
        res, out = LeanBuild.audit(module, theorems)
        allok = not hits and rc.returncode == 0
        for t, (o, axs) in res.items():
            self.obligations.append((t, o, axs))
            if not o:
                allok = False
                self.broken.append({"what": f"theorem {t}", "detail": axs, "log": out[-1500:]})
        return allok

    def gen_obligations(self, module, theorems: list, what: str):
        """Theorems about definitions REGENERATED from the source (`CvGen/Py*.lean`, translator `extract/pylean.py`):
        `generated = hand-written model`.  Built and audited apart from the property's other theorems, so that a source
        change the proofs cannot follow is named precisely.  A failure is a broken obligation (never a violation by
        itself): the run's exploration of the implementation against the Spec decides the wording."""
        if self._obligations_done is not None:
            return all(ok for n, ok, _ in self.obligations if n in theorems)
        okb, _ = LeanBuild.ensure()
        if not okb:
            return False
        for m in getattr(LeanBuild, "gen_msgs", []):
            if m.get("ok", True) and self.pid in m.get("properties", []) and "CvGen/Py" in m.get("name", ""):
                self.extra.setdefault("translated_functions", {}).update(m.get("detail", {}))
        okm, logm = LeanBuild.build_module(module)
        if not okm:
            for t in theorems:
                self.obligations.append((t, False, "module does not build against the regenerated definitions"))
            errs = [ln for ln in logm.split("\n") if "error" in ln][:6]
            self.broken.append({"what": f"{what}: lake build {module} (theorems `generated = model` no longer check against the current source)", "detail": errs or logm[-1500:]})
            return False
        mods = [module] if isinstance(module, str) else list(module)
        rc = sh("lake env leanchecker " + " ".join(mods) + " 2>&1", cwd=LEAN_DIR, timeout=3600)
        self.obligations.append(("leanchecker re-checks " + " ".join(mods), rc.returncode == 0, (rc.stdout + rc.stderr)[-400:] if rc.returncode else ""))
        if rc.returncode != 0:
            self.broken.append({"what": "leanchecker " + " ".join(mods), "detail": (rc.stdout + rc.stderr)[-1500:]})
        res, out = LeanBuild.audit(module, theorems)
        allok = rc.returncode == 0
        for t, (o, axs) in res.items():
            self.obligations.append((t, o, axs))
            if not o:
                allok = False
                self.broken.append({"what": f"theorem {t}", "detail": axs, "log": out[-1500:]})
        return allok

    def obligation(self, name: str, ok: bool, detail=""):
        if self.round and any(n == name and o == bool(ok) for n, o, _ in self.obligations):
            return  # same obligation, already recorded by an earlier exploration round of this run
        self.obligations.append((name, bool(ok), detail))
        if not ok:
            self.broken.append({"what": name, "detail": detail})

    # ---------- results
    def violation(self, signature: str, what: str, replay: dict):
        """A property-level failure on the implementation (judged by the Spec oracle)."""
        for k in self.known:
            if k.get("status") == "known" and k["property"] == self.pid and re.fullmatch(k["signature"], signature):
                if signature not in [s for s, _ in self.known_hits]:
                    self.known_hits.append((signature, k["what"]))
                return
        if any(v["signature"] == signature for v in self.violations) and len(self.violations) > 3:
            return
        self.violations.append({"signature": signature, "what": what, "replay": replay})

    def enough(self) -> bool:
        """True once enough violations are recorded that exploring further only costs time."""
        el = time.time() - self.t0
        return len(self.violations) >= 3 or (self.violations and el > 240) or el > (600 if not self.thorough else 7200)

    def correspondence_break(self, what: str, detail):
        """Model and implementation differ (or a proof/translator obligation broke) without a
        property-level failing input having been established yet."""
        if len(self.broken) < 20:
            self.broken.append({"what": what, "detail": detail})

    def write_replay(self, body: dict) -> str:
        os.makedirs(os.path.join(VERIF, "replays"), exist_ok=True)
        body = dict(body, property=self.pid, seed=self.seed, tier=self.tier)
        path = os.path.join(VERIF, "replays", f"{self.pid}-{digest(body)}.json")
        with open(path, "w") as f:
            json.dump(body, f, indent=1, default=str)
        return os.path.relpath(path, VERIF)

    def finish(self, level="proof", rule="", checker_cmd=None, exhaustive=None):
        if self._driver is not None:
            self._driver.close()
            self._driver = None
        wall = time.time() - self.t0
        # Source-change-directed search.  When a function this property depends on differs from the pinned tree
        # (harness/extract/pins.json: the tree the model was validated against), nothing is reported for that alone,
        # but a quick run that found nothing explores again with fresh seeds while the time budget lasts.
        budget = float(os.environ.get("CV_ESCALATE_BUDGET", "300"))
        if (
            self.changed_sources
            and not self.replay
            and self.tier == "quick"
            and not self.violations
            and not self.broken
            and self.round + 1 < int(os.environ.get("CV_ESCALATE_ROUNDS", "8"))
            and wall + wall / (self.round + 1) < budget
        ):
            Check._carry = {
                "round": self.round, "t0": self.t0, "evaluations": self.evaluations, "distinct": self.distinct, "hist": self.hist,
                "samples": self.samples, "obligations": self.obligations, "traces": self.traces, "programs": self.programs,
                "changed_sources": self.changed_sources,
            }  # fmt: skip
            raise _Again()
        n_obl = len(self.obligations)
        n_ok = sum(1 for _, ok, _ in self.obligations if ok)
        cov = {
            "obligations": n_obl,
            "discharged": n_ok,
            "checker_cmd": checker_cmd
            or "cd lean && lake build CvModel CvGen CvProofs CvProps cvdriver && lake env lean <audit file with #print axioms per theorem>",
            "trusted_base": TRUSTED_BASE,
            "obligation_list": [{"name": n, "ok": ok, "detail": d} for n, ok, d in self.obligations],
            "evaluations": self.evaluations,
            "distinct_nontrivial": len(self.distinct),
            "rule": rule,
            "samples": self.samples[:6] or ["(no sampled cases in this run)"],
            "traces_validated_against_impl": self.traces,
            "histogram": dict(sorted(self.hist.items())),
            "known_findings_reproduced": [s for s, _ in self.known_hits],
            "broken": self.broken[:10],
        }
        if self.programs:
            cov["programs"] = self.programs
        if exhaustive is not None:
            cov["exhaustive"] = bool(exhaustive)
        cov["source_pins"] = {
            "changed_since_pinned": self.changed_sources[:20],
            "exploration_rounds": self.round + 1,
            "note": "a changed source is not a violation; it only makes a quick run explore further rounds with fresh seeds",
        }
        cov.update(self.extra)
        for sig, what in self.known_hits:
            print(f"KNOWN-FINDING: property={self.pid} {sig}: {what}", file=Check._real_stdout)
        status = 0
        lines = []
        for v in self.violations:
            path = self.write_replay(dict(v["replay"], kind="failing-input", signature=v["signature"], what=v["what"]))
            lines.append(f"VIOLATION property={self.pid} replay={path}")
            status = 1
        if self.broken and not self.violations:
            path = self.write_replay({"kind": "no-failing-input-found", "broken": self.broken[:10]})
            lines.append(f"VIOLATION property={self.pid} replay={path} no-failing-input-found")
            status = 1
        ev = {
            "property_id": self.pid,
            "tier": self.tier,
            "seed": self.seed,
            "level": level,
            "coverage": cov,
            "assumptions": self.assumptions,
            "wall_s": round(wall, 2),
            "violations": len(self.violations) + (1 if (self.broken and not self.violations) else 0),
        }
        # CV_EVIDENCE_DIR: used only by tools/run_seeded.py so that runs against a deliberately broken tree
        # do not overwrite the evidence of the real tree
        evdir = os.environ.get("CV_EVIDENCE_DIR") or os.path.join(VERIF, "evidence")
        if self.replay:
            evdir = os.path.join(VERIF, "replays", "evidence_of_last_replay")  # a replay never overwrites the run's evidence
        os.makedirs(evdir, exist_ok=True)
        with open(os.path.join(evdir, f"{self.pid}.json"), "w") as f:
            json.dump(ev, f, indent=1, default=str)
        for ln in lines:
            print(ln, file=Check._real_stdout)
        print(
            f"[{self.pid}] tier={self.tier} seed={self.seed} obligations={n_ok}/{n_obl} evaluations={self.evaluations} "
            f"distinct={len(self.distinct)} violations={len(self.violations)} broken={len(self.broken)} "
            f"known={len(self.known_hits)} wall={wall:.1f}s",
            file=Check._real_stdout,
        )
        Check._real_stdout.flush()
        sys.exit(status)
