"""Correspondence for the REGENERATED Lean definitions (`CvGen/PyPerm.lean`, `CvGen/PyFamilies.lean`).

The translator `extract/pylean.py` turns `permutation_utils.py` and the `PermutationGroups` constructors of
`graphs_lib.py` into Lean functions on every run.  Here the translated functions are *executed* (through
`lean/PyRun.lean`) on a parameter grid — including parameters the library rejects — and compared with the
real Python functions run in-process.  For the constructors `CayleyGraphDef.create` is intercepted so that the
raw arguments handed to it are compared (that is what the translated function returns, a `RawDef`).

A difference is a broken correspondence of the *translator* (its Python semantics `PyPrelude.lean` or its
reading of the source), never a violation by itself.
"""
import inspect
import itertools
import os
import subprocess

from cv.core import LEAN_DIR, LeanBuild

EXC_NONE = (AssertionError, IndexError, ZeroDivisionError, ValueError)


def _fmt_args(args):
    out = []
    for a in args:
        if isinstance(a, bool):
            out.append("1" if a else "0")
        elif isinstance(a, int):
            out.append(str(a))
        elif a and isinstance(a[0], (list, tuple)):      # a list of lists: one segment per inner list (must be the last argument)
            out += [" ".join(str(x) for x in inner) for inner in a]
        else:
            out.append(" ".join(str(x) for x in a))
    return " | ".join(out)


def _show_ints(l):
    return " ".join(str(int(x)) for x in l)


def _render(v):
    """canonical rendering, the same as `ShowRes` in the generated `CvGen/PyDispatch.lean` (Python-repr style)"""
    if isinstance(v, Raw):  # captured create() call
        return "create(" + ", ".join(_render(v[k]) for k in ("gens", "names", "central", "name")) + ")"
    if v is None:
        return "None"
    if isinstance(v, bool):
        return "True" if v else "False"
    if isinstance(v, str):
        return "'" + v + "'"
    if isinstance(v, dict):  # insertion-ordered dict str -> value: rendered as the list of its items
        return "[" + ", ".join("(" + _render(k) + ", " + _render(x) + ")" for k, x in v.items()) + "]"
    if isinstance(v, tuple):
        return "(" + ", ".join(_render(x) for x in v) + ")"
    if isinstance(v, list):
        return "[" + ", ".join(_render(x) for x in v) + "]"
    return str(int(v))


class Raw(dict):
    """the raw arguments of an intercepted `CayleyGraphDef.create` call"""


def globe_requests(thorough):
    import cayleypy.puzzles.globe as gb

    reqs = []
    for s in range(-1, 6):
        for f in range(-1, 7):
            for n in range(-1, 8):
                reqs.append(("Globe.help_cyclic", gb.help_cyclic, [s, f, n]))
    top = 7 if thorough else 5
    for a in range(-1, top + 1):
        for b in range(-1, top + 1):
            reqs.append(("Globe.globe_gens", gb.globe_gens, [a, b]))
            reqs.append(("Globe.globe_puzzle", gb.globe_puzzle, [a, b]))
    return reqs, gb


def rings_requests(report, thorough):
    import cayleypy.puzzles.hungarian_rings as hr

    ok = {k for k, v in report.items() if v == "translated"}
    reqs = []
    top = 8 if thorough else 6
    lists = [[], [5], [0, 1], [0, 1, 2, 3], [4, 3, 2, 1, 0], [7, 7, 1]]
    for items in lists:
        for step in range(-4, 8):
            reqs.append(("Rings._circular_shift", hr._circular_shift, [items, step]))
    for li in range(-1, 4):
        for ri in range(-1, 4):
            reqs.append(("Rings._get_intersections", hr._get_intersections, [li, ri]))
    for ls in range(0, top + 1):
        for rs in range(0, top + 1):
            for li in range(-1, ls + 1):
                for ri in range(-1, rs + 1):
                    reqs.append(("Rings.hungarian_rings_generators", hr.hungarian_rings_generators, [ls, li, rs, ri]))
                    for step in (1, -1, 0, 2, 5, -3):
                        if (ls + rs + li + ri + step) % 3 == 0 or step in (1, -1):
                            reqs.append(("Rings.hungarian_rings_permutations", hr.hungarian_rings_permutations, [ls, li, rs, ri, step]))
                    if li >= 0 and ri >= 0 and (ls + rs) % 2 == 0:
                        full = ls + rs - (1 if li == 0 and ri == 0 else 2)
                        reqs.append(("Rings._create_right_ring", hr._create_right_ring, [ls, li, rs, ri, full]))
    for n in range(-2, 41):
        reqs.append(("Rings.get_santa_parameters_from_n", hr.get_santa_parameters_from_n, [n]))
    for n in range(0, 13 if not thorough else 18):
        reqs.append(("Rings.get_group", hr.get_group, [n]))
    for a in range(0, 9):
        for b in range(0, 9):
            reqs.append(("Rings.get_pair_variants", hr.get_pair_variants, [a, b]))
    return [r for r in reqs if r[0].split(".", 1)[1] in ok]


def graphdef_requests(report, rng, thorough):
    """the permutation branch of four `CayleyGraphDef` methods, as functions of the fields they read"""
    from cayleypy.cayley_graph_def import CayleyGraphDef

    ok = {k for k, v in report.items() if v.startswith("translated")}
    reqs = []
    defs = []
    n_defs = 250 if not thorough else 1500
    for _ in range(n_defs):
        n = rng.randint(1, 6)
        k = rng.randint(1, 5)
        gens = []
        for _j in range(k):
            r = rng.random()
            if gens and r < 0.25:
                g = list(gens[rng.randrange(len(gens))])                      # a repeated generator
            elif gens and r < 0.55:
                src = gens[rng.randrange(len(gens))]
                g = [0] * n
                for i, x in enumerate(src):
                    g[x] = i                                                   # the inverse of an earlier one
            else:
                g = list(range(n))
                rng.shuffle(g)
            gens.append(g)
        central = [rng.randrange(n) for _ in range(n)] if rng.random() < 0.5 else list(range(n))
        name_ints = [rng.randint(0, 9) for _ in gens]
        nm = [] if rng.random() < 0.4 else [rng.randint(0, 9)]
        defs.append((gens, central, name_ints, nm))
    for gens, central, name_ints, nm in defs:
        names = ["n" + str(i) for i in name_ints]
        name = "" if not nm else "s" + str(nm[0])
        d = CayleyGraphDef.create(gens, generator_names=names, central_state=central, name=name)
        imap = d.generators_inverse_map
        if "generators_inverse_map" in ok:
            reqs.append(("GraphDef.generators_inverse_map", (lambda d=d: d.generators_inverse_map), [gens], None))
        if "with_inverted_generators" in ok:
            reqs.append(("GraphDef.with_inverted_generators", (lambda d=d: d.with_inverted_generators()), [central, gens], None))
        if "make_inverse_closed" in ok:
            def mic(d=d):
                r = d.make_inverse_closed()
                if r is d:
                    return Raw({"gens": [list(g) for g in d.generators_permutations], "central": list(d.central_state), "names": list(d.generator_names), "name": d.name})
                return r
            reqs.append(("GraphDef.make_inverse_closed", mic, [name_ints, central, nm, [1 if imap is not None else 0], gens], None))
        if "revert_path" in ok:
            for _ in range(2):
                path = [rng.randrange(len(gens) + (1 if rng.random() < 0.1 else 0)) for _ in range(rng.randint(0, 6))]
                reqs.append(("GraphDef.revert_path", (lambda d=d, path=path: d.revert_path(path)), [([1] + imap) if imap is not None else [0], path], None))
    return reqs, CayleyGraphDef


def perm_requests(rng, thorough):
    import cayleypy.permutation_utils as pu

    reqs = []
    lists = [[], [0], [1], [0, 1], [1, 0], [1, 2, 0], [2, 0, 1], [0, 0, 1], [3, 1, 2], [-1, 0, 1], [1, -1, 0], [2, 1, 0, 3],
             [0, 2, 1, 4, 3], [5, 4, 3, 2, 1, 0], [-3, -2, -1], [1, 1], [4, 0, 1, 2]]
    for _ in range(60 if not thorough else 600):
        n = rng.randint(1, 9)
        p = list(range(n))
        rng.shuffle(p)
        lists.append(p)
        q = list(p)
        q[rng.randrange(n)] = rng.randint(-n - 1, n + 1)
        lists.append(q)
    for n in range(-2, 7):
        reqs.append(("Perm.identity_perm", pu.identity_perm, [n]))
    for p in lists:
        reqs.append(("Perm.inverse_permutation", pu.inverse_permutation, [p]))
        reqs.append(("Perm.is_permutation", pu.is_permutation, [p]))
    for p, x in itertools.product(lists[:40], lists[:40]):
        reqs.append(("Perm.apply_permutation", pu.apply_permutation, [p, x]))
        if len(reqs) % 3 == 0:
            reqs.append(("Perm.compose_permutations", pu.compose_permutations, [p, x]))
    for n in range(-1, 6):
        for i in range(-2, 7):
            for j in range(-2, 7):
                reqs.append(("Perm.transposition", pu.transposition, [n, i, j]))
    cyc_sets = [[], [[0, 1]], [[0, 1, 2]], [[0, 1], [2, 3]], [[0], [0, 1]], [[0, 1], [1, 2]], [[]], [[2]], [[1, 2, 3], [0, 4]],
                [[0, 5]], [[-1, 0]], [[0, 1], []], [[3, 2, 1, 0]], [[1, 1]], [[0, 2], [1, 3], [4, 5]]]
    for n in range(0, 7):
        for cs in cyc_sets:
            for off in (0, 1, -1):
                reqs.append(("Perm.permutation_from_cycles", lambda n, off, *cs: pu.permutation_from_cycles(n, [list(c) for c in cs], off),
                             [n, off] + [list(c) for c in cs]))
    return reqs


def family_requests(report, thorough):
    """one request per translated constructor and parameter tuple of the grid"""
    import cayleypy.graphs_lib as gl
    from cayleypy.cayley_graph_def import CayleyGraphDef

    cap = 9 if thorough else 7
    reqs = []
    for fn, status in report.items():
        if status != "translated":
            continue
        if fn.startswith("_"):
            f = getattr(gl, fn)
            for n in range(-1, cap + 1):
                reqs.append((f"Fam.{fn}", f, [n]))
            continue
        f = getattr(gl.PermutationGroups, fn)
        params = list(inspect.signature(f).parameters.values())
        src = inspect.getsource(f)
        big = "permutations(" in src or "combinations(" in src   # factorially many generators
        doms = []
        for k, p in enumerate(params):
            if p.annotation is bool:
                doms.append([False, True])
            elif k == 0:
                doms.append(list(range(-1, 7 if big else cap + (4 if len(params) == 1 else 1))))
            else:
                doms.append(list(range(-1, cap + 2)))
        grid = list(itertools.product(*doms))
        if len(grid) > 4000:
            grid = grid[:: len(grid) // 4000 + 1]
        for args in grid:
            reqs.append((f"Fam.{fn}", f, list(args)))
    return reqs, CayleyGraphDef


def run(ck, report, rng, thorough=False, which=("perm", "fam")):
    """returns the number of compared calls; reports differences through `ck.correspondence_break`"""
    ok, log = LeanBuild.build_module("CvGen.PyDispatch")
    if not ok:
        ck.broken.append({"what": "lake build CvGen.PyDispatch (regenerated definitions)", "detail": log[-2500:]})
        return 0
    reqs = []
    if "perm" in which:
        reqs += perm_requests(rng, thorough)
    CGD = None
    if "fam" in which:
        fr, CGD = family_requests(report.get("graphs_lib", {}), thorough)
        reqs += fr
    GB = None
    if "globe" in which:
        gr, GB = globe_requests(thorough)
        reqs += gr
    if "rings" in which:
        reqs += rings_requests(report.get("hungarian_rings", {}), thorough)
    if "graphdef" in which:
        gq, CGD2 = graphdef_requests(report.get("cayley_graph_def", {}), rng, thorough)
        if CGD is None:
            CGD = CGD2
        reqs += gq
    reqs = [(r[0], r[1], r[2], len(r) == 4) for r in reqs]
    lines = [f"{fn} ; {_fmt_args(args)}" for fn, _, args, _ in reqs]
    r = subprocess.run(["lake", "env", "lean", "--run", "PyRun.lean"], cwd=LEAN_DIR, input="\n".join(lines) + "\n",
                       capture_output=True, text=True, timeout=1800)
    answers = r.stdout.split("\n")
    if r.returncode != 0 or len(answers) < len(reqs):
        ck.broken.append({"what": "PyRun.lean (regenerated definitions) did not answer every request", "detail": (r.stderr or r.stdout)[-1500:]})
        return 0
    captured = {}
    orig = None
    if CGD is not None:
        orig = CGD.__dict__["create"]

        def fake_create(generators, generator_names=None, central_state=None, name=None, **kw):
            if kw:
                raise TypeError("unexpected keyword")
            captured["v"] = Raw({"gens": [list(g) for g in generators], "central": None if central_state is None else list(central_state),
                                 "names": None if generator_names is None else list(generator_names), "name": name})
            return captured["v"]

        CGD.create = staticmethod(fake_create)
    orig_gb = None
    if GB is not None:
        # globe.py binds `CayleyGraphDef` at import time (from cayleypy.cayley_graph): intercept `create` on that class object
        G_CGD = GB.CayleyGraphDef
        if CGD is None or G_CGD is not CGD:
            orig_gb = G_CGD.__dict__["create"]

            def fake_create2(generators, generator_names=None, central_state=None, name=None, **kw):
                return Raw({"gens": [list(g) for g in generators], "central": None if central_state is None else list(central_state),
                            "names": None if generator_names is None else list(generator_names), "name": name})

            G_CGD.create = staticmethod(fake_create2)
    n_cmp = 0
    try:
        for (fn, f, args, thunk), ans in zip(reqs, answers):
            try:
                v = f() if thunk else f(*args)
                want = "ok ; " + _render(v)
            except EXC_NONE:
                want = "none"
            except Exception as ex:  # a different exception class: outside the translated semantics
                ck.count("pygen:other-exception:" + type(ex).__name__)
                continue
            n_cmp += 1
            ck.count("pygen:" + fn.split(".")[0] + (":rejects" if want == "none" else ":ok"))
            if ans.strip() != want.strip():
                ck.correspondence_break("regenerated Lean definition and the Python function differ",
                                        {"case": {"pygen": fn, "args": args}, "model": ans[:300], "impl": want[:300]})
                if len(ck.broken) > 3:
                    break
    finally:
        if orig is not None:
            CGD.create = orig
        if orig_gb is not None:
            GB.CayleyGraphDef.create = orig_gb
    return n_cmp


def gen_tie(ck, modname, theorems, which):
    """The tie by translation: the source is regenerated into Lean on every run; the theorems `generated = model`
    (module `CvProps.<modname>`) are re-checked against it, and the generated definitions are executed against Python."""
    from cv.core import VERIF
    from extract import regen

    if modname and theorems and os.path.exists(os.path.join(VERIF, "lean", "CvProps", modname + ".lean")):
        ck.gen_obligations("CvProps." + modname, theorems, "translated source")
    rep = regen.PYLEAN_REPORT or {}
    ck.extra["translated_functions"] = {k: v for k, v in rep.items() if k != "changed"}
    n = run(ck, rep, ck.rng, thorough=ck.thorough, which=which)
    ck.extra["regenerated_definitions_executed_against_python"] = n
