"""Graph definitions for the correspondence: generation, construction of the real objects, packing of
states for the Lean driver, and a plain-Python brute-force BFS used only to size cases."""

import itertools
import os
import sys

import numpy as np
import torch

from .core import REPO

if REPO not in sys.path:
    sys.path.insert(0, REPO)
os.environ.setdefault("CAYLEYPY_VERIF", "1")

import cayleypy  # noqa: E402  pylint: disable=wrong-import-position
from cayleypy import CayleyGraph, CayleyGraphDef, MatrixGenerator  # noqa: E402  pylint: disable=wrong-import-position
from cayleypy import torch_utils as _tu  # noqa: E402  pylint: disable=wrong-import-position

assert os.path.abspath(cayleypy.__file__).startswith(os.path.abspath(REPO)), cayleypy.__file__

VERIF_EVENTS = getattr(_tu, "VERIF_EVENTS", [])


def drain_events():
    ev = list(VERIF_EVENTS)
    del VERIF_EVENTS[:]
    return ev


class GDef:
    """A graph definition in harness form.

    kind 'perm': gens = list of permutations, central = list of ints
    kind 'mat' : gens = list of n*n row-major lists (already reduced mod `modulo` when modulo>0; signed for 0),
                 central = flat list (n*m), modulo in {0} or [2, 2^31]
    """

    def __init__(self, kind, gens, central, n=None, m=None, modulo=0, tag=""):
        self.kind = kind
        self.gens = [list(map(int, g)) for g in gens]
        self.central = list(map(int, central))
        self.modulo = modulo
        self.tag = tag
        if kind == "perm":
            self.n = len(self.central)
            self.B = max(2, max(self.central) + 1)
        else:
            self.n = n
            self.m = m
            self.B = modulo if modulo > 0 else 1 << 64

    # ---- canonical key / json
    def key(self):
        return [self.kind, self.gens, self.central, self.modulo]

    def to_json(self):
        d = {"kind": self.kind, "gens": self.gens, "central": self.central, "tag": self.tag}
        if self.kind == "mat":
            d.update(n=self.n, m=self.m, modulo=self.modulo)
        return d

    @staticmethod
    def from_json(d):
        return GDef(d["kind"], d["gens"], d["central"], d.get("n"), d.get("m"), d.get("modulo", 0), d.get("tag", ""))

    # ---- the real objects
    def definition(self, names=None, name=""):
        if self.kind == "perm":
            return CayleyGraphDef.create(self.gens, generator_names=names, central_state=self.central, name=name)
        gens = [MatrixGenerator.create(np.array(g, dtype=np.int64).reshape(self.n, self.n), self.modulo) for g in self.gens]
        return CayleyGraphDef.for_matrix_group(generators=gens, generator_names=names, central_state=self.central, name=name)

    def graph(self, **cfg):
        cfg.setdefault("device", "cpu")
        # hook H4: `derived_batch` is not a constructor argument; it scales down the DEFAULT batch size (2^20), which is
        # what graphs derived from this one (inverted copies, modified copies) are built with, so that batch boundaries
        # inside derived graphs are crossed on small graphs too.  Stays in force until the next graph is built here.
        derived = cfg.pop("derived_batch", None)
        try:
            import cayleypy.torch_utils as tu

            if hasattr(tu, "VERIF_KNOBS"):
                if derived:
                    tu.VERIF_KNOBS["default_batch_size"] = int(derived)
                else:
                    tu.VERIF_KNOBS.pop("default_batch_size", None)
        except ImportError:
            pass
        return CayleyGraph(self.definition(), **cfg)

    # ---- packing (must agree with CvModel/Pack.lean)
    def pack(self, state):
        k = 0
        for d in reversed([int(x) % self.B for x in np.asarray(state).reshape(-1).tolist()]):
            k = k * self.B + d
        return k

    def unpack(self, k):
        size = self.n if self.kind == "perm" else self.n * self.m
        out = []
        for _ in range(size):
            out.append(k % self.B)
            k //= self.B
        if self.kind == "mat" and self.modulo == 0:
            out = [x - (1 << 64) if x >= (1 << 63) else x for x in out]
        return out

    def pack_rows(self, t):
        """t: tensor/array of decoded states with any per-state shape -> list of packed ints"""
        a = np.asarray(t.cpu() if hasattr(t, "cpu") else t)
        size = self.n if self.kind == "perm" else self.n * self.m
        a = a.reshape((-1, size))
        return [self.pack(r) for r in a.tolist()]

    # ---- math in plain Python (independent of cayleypy; used for sizing and search only)
    def act(self, i, s):
        s = list(s)
        if self.kind == "perm":
            p = self.gens[i]
            return tuple(s[p[j]] for j in range(len(p)))
        n, m = self.n, self.m
        M = self.gens[i]
        out = []
        for r in range(n):
            for c in range(m):
                v = sum(M[r * n + j] * s[j * m + c] for j in range(n))
                if self.modulo > 0:
                    v %= self.modulo
                else:
                    v = (v + (1 << 63)) % (1 << 64) - (1 << 63)
                out.append(v)
        return tuple(out)

    def brute_layers(self, starts=None, cap=5000, max_depth=10**9):
        """Plain BFS over tuples; returns list of layers (lists of tuples) or None when the cap is hit."""
        starts = [tuple(self.central)] if starts is None else [tuple(map(int, s)) for s in starts]
        seen = set(starts)
        cur = sorted(seen)
        layers = [cur]
        depth = 0
        while cur and depth < max_depth:
            nxt = set()
            for s in cur:
                for i in range(len(self.gens)):
                    t = self.act(i, s)
                    if t not in seen:
                        nxt.add(t)
            if not nxt:
                break
            seen |= nxt
            if len(seen) > cap:
                return None
            cur = sorted(nxt)
            layers.append(cur)
            depth += 1
        return layers

    # ---- driver
    def send(self, drv, cands=None):
        """Defines the current graph in the driver. Returns (inverse_closed, invertible) as reported by the model."""
        if self.kind == "perm":
            line = f"G perm {self.B} {self.n} ; " + " ; ".join(" ".join(map(str, g)) for g in self.gens)
            r = drv.ask(line)
            if not r.startswith("ok"):
                return r, None
            return r.split()[1] == "1", True
        gens = [" ".join(str(x % self.B) for x in g) for g in self.gens]
        line = f"G mat {self.B} {self.n} {self.m} ; " + " ; ".join(gens)
        if cands is not None:
            line += " ; INV ; " + " ; ".join(" ".join(str(int(x) % self.B) for x in c) for c in cands)
        r = drv.ask(line)
        if not r.startswith("ok"):
            return r, None
        t = r.split()
        return t[1] == "1", t[2] == "1"

    def inverse_candidates(self):
        """Candidate inverses of the matrix generators as produced by the real `MatrixGenerator.inv` (oracle input)."""
        out = []
        d = self.definition()
        for g in d.generators_matrices:
            try:
                out.append(g.inv.matrix.reshape(-1).tolist())
            except (AssertionError, np.linalg.LinAlgError):
                return None
        return out


# ---------------------------------------------------------------- generators of definitions
def inv_perm(p):
    q = [0] * len(p)
    for i, v in enumerate(p):
        q[v] = i
    return q


def rand_perm(rng, n):
    p = list(range(n))
    rng.shuffle(p)
    return p


def local_perm(rng, n, k):
    """A permutation of n points moving only k of them."""
    pts = rng.sample(range(n), k)
    img = pts[:]
    rng.shuffle(img)
    p = list(range(n))
    for a, b in zip(pts, img):
        p[a] = b
    return p


def named_family(rng, n):
    from cayleypy import PermutationGroups as PG

    fams = ["lrx", "lx", "top_spin", "coxeter", "cyclic_coxeter", "pancake", "full_reversals", "all_transpositions", "stars"]
    f = rng.choice(fams)
    if f == "top_spin":
        return PG.top_spin(max(n, 4)).generators_permutations, f
    return getattr(PG, f)(n).generators_permutations, f


def deep_directed_def(rng):
    """Directed (not inverse-closed) graphs with a small orbit and MANY layers: one long cycle, optionally with a local
    3-cycle / transposition, acting on a state with one or two marked points."""
    if rng.random() < 0.3:
        # two disjoint directed cycles Z_a x Z_b with one marked point each: a + b - 1 layers (well above 64), back edges
        # whenever the short cycle wraps around; a second marked point on the long cycle gives a coset with fewer layers
        a, b = rng.randint(45, 80), rng.randint(2, 5)
        n = a + b
        g1 = [(i + 1) % a for i in range(a)] + list(range(a, n))
        g2 = list(range(a)) + [a + (i + 1) % b for i in range(b)]
        central = [0] * n
        central[rng.randrange(a)] = 1
        central[a + rng.randrange(b)] = 1
        gens = [g1, g2] if rng.random() < 0.7 else [g2, g1]
        return GDef("perm", gens, central, tag="deep-directed-two-cycles")
    n = rng.randint(11, 26)
    gens = [[(i + 1) % n for i in range(n)]]
    r = rng.random()
    if r < 0.35:
        a = rng.randrange(n - 2)
        p = list(range(n))
        p[a], p[a + 1], p[a + 2] = a + 1, a + 2, a
        gens.append(p)
    elif r < 0.6:
        p = list(range(n))
        p[0], p[1] = 1, 0
        gens.append(p)
    central = [0] * n
    central[rng.randrange(n)] = 1
    if rng.random() < 0.4:
        central[rng.randrange(n)] = rng.choice([1, 2])
    return GDef("perm", gens, central, tag="deep-directed")


def many_layer_directed_def(rng, lo=66, hi=135):
    """Z_a x Z_b as two disjoint directed cycles with one marked point each: a + b - 1 >= 67 layers, orbit a*b, and an
    edge from layer x + b - 1 back into layer x for every x (so every old layer is re-entered from a later one)."""
    a, b = rng.randint(lo, hi), rng.randint(2, 5)
    n = a + b
    g1 = [(i + 1) % a for i in range(a)] + list(range(a, n))
    g2 = list(range(a)) + [a + (i + 1) % b for i in range(b)]
    central = [0] * n
    central[rng.randrange(a)] = 1
    central[a + rng.randrange(b)] = 1
    gens = [g1, g2] if rng.random() < 0.7 else [g2, g1]
    return GDef("perm", gens, central, tag="many-layer-directed")


def full_word_def(rng):
    """States that fill the 64-bit word exactly (n * w = 64) and whose orbit contains the extreme codes: all bits set
    but the top one (int64 max), only the top bit (int64 min), all bits set (-1).  Cyclic shifts (+ a swap): orbit <= a
    few hundred states."""
    w = rng.choice([1, 1, 2, 4])  # not 8: the library requires central-state entries < n, and 255 >= 8
    n = 64 // w
    top = 2**w - 1
    kind = rng.choice(["max-but-top", "only-top", "all-but-one-zero", "two-special"])
    central = [top] * n if kind != "only-top" else [0] * n
    central[rng.randrange(n)] = {"max-but-top": top >> 1, "only-top": 1 << (w - 1), "all-but-one-zero": 0, "two-special": top >> 1}[kind]
    if kind == "two-special" and w > 1:
        central[rng.randrange(n)] = 1
    gens = [[(i + 1) % n for i in range(n)], [(i - 1) % n for i in range(n)]]
    if rng.random() < 0.5:
        gens.append([1, 0] + list(range(2, n)))
    return GDef("perm", gens, central, tag="full-word-" + kind), w


def duplicate_neighbour_def(rng):
    """Graphs in which a state has the SAME neighbour under several generators (coset graphs where many generators
    fix a state, or a generator listed twice at low indices) and layers of a few dozen states."""
    from cayleypy import PermutationGroups as PG

    r = rng.random()
    if r < 0.5:
        n = rng.randint(6, 9)
        gens = [list(g) for g in PG.all_transpositions(n).generators_permutations]
        rng.shuffle(gens)
        k = rng.randint(2, n - 2)
        central = [0] * k + [1] * (n - k)
        if rng.random() < 0.3:
            central[-1] = 2
        rng.shuffle(central)
        tag = "dup-neighbour-transpositions"
    else:
        n = rng.randint(5, 7)
        base = [rand_perm(rng, n) for _ in range(2)]
        gens = [list(base[0]), list(base[0]), list(base[1])] + [inv_perm(p) for p in base]
        if rng.random() < 0.5:
            gens.insert(0, list(base[1]))
        central = list(range(n)) if rng.random() < 0.6 else [i % 3 for i in range(n)]
        tag = "dup-neighbour-repeated-generator"
    return GDef("perm", gens, central, tag=tag)


def gen_perm_def(rng, cap_n=9):
    """Mostly valid permutation definitions with small orbits (always inside the library's domain, see in_domain)."""
    for _ in range(100):
        gd = _gen_perm_def(rng, cap_n)
        if in_domain(gd):
            return gd
    raise RuntimeError("generator produces out-of-domain definitions")


def _gen_perm_def(rng, cap_n=9):
    r = rng.random()
    if r < 0.06:
        return deep_directed_def(rng) if rng.random() < 0.7 else full_word_def(rng)[0]
    if r < 0.12:
        return duplicate_neighbour_def(rng)
    if r < 0.25:
        n = rng.randint(3, min(cap_n, 7))
        gens, tag = named_family(rng, n)
        n = len(gens[0])
        central = list(range(n))
        if rng.random() < 0.5:
            colours = rng.randint(1, 3)
            central = sorted(rng.randrange(colours + 1) for _ in range(n))
            tag += "-coset"
    elif r < 0.5:
        n = rng.randint(2, 7)
        k = rng.randint(1, 3)
        gens = [rand_perm(rng, n) for _ in range(k)]
        central = list(range(n)) if rng.random() < 0.6 else [rng.randrange(rng.randint(1, n)) for _ in range(n)]
        tag = "random"
    elif r < 0.8:
        # long state, shuffles of a small support spread over several 64-bit words: small orbit, many words
        n = rng.choice([12, 16, 20, 22, 31, 32, 33, 40, 64, 65, 70])
        k = rng.randint(2, 3)
        support = rng.sample(range(n), min(n, rng.randint(4, 7)))
        gens = []
        for _ in range(k):
            pts = rng.sample(support, rng.randint(2, min(4, len(support))))
            p = list(range(n))
            for a, b in zip(pts, pts[1:] + pts[:1]):
                p[a] = b
            gens.append(p)
        hi = min(n, rng.choice([2, 3, 4, 9, 17]))
        central = [rng.randrange(hi) for _ in range(n)]
        for q, a in enumerate(support):
            central[a] = q % hi if rng.random() < 0.7 else rng.randrange(hi)
        tag = "local"
    else:
        n = rng.randint(2, 6)
        base = [rand_perm(rng, n) for _ in range(rng.randint(1, 2))]
        gens = list(base)
        mode = rng.random()
        if mode < 0.4:
            gens += [inv_perm(p) for p in base]
            tag = "closed"
        elif mode < 0.6:
            gens.append(list(range(n)))
            tag = "with-identity"
        elif mode < 0.8:
            gens.append(list(base[0]))
            tag = "repeated"
        else:
            gens = [[(i + 1) % n for i in range(n)]]
            tag = "directed-cycle"
        central = list(range(n)) if rng.random() < 0.5 else [rng.randrange(3) for _ in range(n)]
    if rng.random() < 0.3 and not all(inv_perm(p) in gens for p in gens):
        gens = gens + [inv_perm(p) for p in gens if inv_perm(p) not in gens]
        tag += "+inv"
    central = [min(c, len(central) - 1) for c in central]  # the definition requires entries < n
    return GDef("perm", gens, central, tag=tag)


def elementary(n, i, j, v):
    M = [1 if r == c else 0 for r in range(n) for c in range(n)]
    M[i * n + j] = v
    return M


def large_modulus_mat_def(rng):
    """Small orbits under a LARGE modulus with entries just below it: the standard representation of S_{n+1} mod m
    (x_1 -> -(x_1 + ... + x_n) and coordinate permutations), m around 2^k for k = 8..31 — where products and row sums
    cross the float (2^24, 2^53) and int64 boundaries while the orbit stays below (n+1)! states."""
    n = rng.choice([2, 3, 3, 4])
    k = rng.choice([8, 16, 24, 25, 26, 26, 26, 27, 30, 31])
    modulo = min(2**31, rng.choice([2**k, 2**k, 2**k - 1, 2**k - 3, 2**k + 1]))
    refl = [int(r == c) for r in range(n) for c in range(n)]
    for c in range(n):
        refl[c] = modulo - 1
    shift = [int((r + 1) % n == c) for r in range(n) for c in range(n)]
    gens = [refl, shift]
    if rng.random() < 0.4:
        swap = [int(r == c) for r in range(n) for c in range(n)]
        swap[0], swap[1], swap[n], swap[n + 1] = 0, 1, 1, 0
        gens.append(swap)
    if rng.random() < 0.3:
        inv_shift = [int(r == (c + 1) % n) for r in range(n) for c in range(n)]
        gens.append(inv_shift)
    m = rng.choice([1, 2])
    central = [modulo - rng.choice([1, 2, 4, 3, 5, 7]) for _ in range(n * m)]
    if rng.random() < 0.3:
        central = [rng.randrange(modulo) for _ in range(n * m)]
    return GDef("mat", gens, central, n=n, m=m, modulo=modulo, tag=f"mat-large-mod2^{k}")


def gen_mat_def(rng):
    if rng.random() < 0.2:
        return large_modulus_mat_def(rng)
    n = rng.choice([2, 2, 3])
    modulo = rng.choice([2, 3, 3, 4, 5, 7, 0])
    k = rng.randint(1, 3)
    gens = []
    for _ in range(k):
        i, j = rng.sample(range(n), 2)
        v = rng.choice([1, 1, -1, 2])
        M = elementary(n, i, j, v)
        if modulo > 0:
            M = [x % modulo for x in M]
        gens.append(M)
        if rng.random() < 0.5:
            Mi = elementary(n, i, j, -v)
            if modulo > 0:
                Mi = [x % modulo for x in Mi]
            gens.append(Mi)
    if modulo == 0:
        # finite orbit in wrapped arithmetic needs torsion: signed permutation matrices
        gens = []
        for _ in range(k):
            p = rand_perm(rng, n)
            M = [0] * (n * n)
            for r in range(n):
                M[r * n + p[r]] = rng.choice([1, -1])
            gens.append(M)
    m = rng.choice([1, n, 2])
    if rng.random() < 0.5:
        central = [1 if r == c else 0 for r in range(n) for c in range(m)]
    else:
        hi = modulo if modulo > 0 else 3
        central = [rng.randrange(hi) for _ in range(n * m)]
    return GDef("mat", gens, central, n=n, m=m, modulo=modulo, tag=f"mat-mod{modulo}")


def in_domain(gd):
    """What the library's own validation demands of a definition (CayleyGraphDef.__post_init__): a generated definition
    outside it would be a bug of the generator, not of the library, and must never reach a check."""
    if gd.kind == "perm":
        n = len(gd.central)
        return n >= 1 and 0 <= min(gd.central) and max(gd.central) < n and all(sorted(p) == list(range(n)) for p in gd.gens) and len(gd.gens) >= 1
    return gd.modulo == 0 or (2 <= gd.modulo <= 2**31 and all(0 <= x < gd.modulo for g in gd.gens for x in g))


def gen_def(rng, mat_share=0.2):
    for _ in range(100):
        gd = gen_mat_def(rng) if rng.random() < mat_share else gen_perm_def(rng)
        if in_domain(gd):
            return gd
    raise RuntimeError("generator produces out-of-domain definitions")


def min_width(gd):
    return max(1, max(gd.central).bit_length())


def gen_cfg(rng, gd):
    """An internal configuration of CayleyGraph."""
    cfg = {}
    if gd.kind == "perm":
        mw = min_width(gd)
        cfg["bit_encoding_width"] = rng.choice([None, "auto", mw, mw + 1, mw + rng.randint(2, 3), rng.choice([15, 16, 21, 31, 32, 33, 62, 63, 64])])
    cfg["batch_size"] = rng.choice([1, 2, 3, 7, 50, 2**20])
    cfg["hash_chunk_size"] = rng.choice([1, 2, 5, 100, 2**25])
    cfg["random_seed"] = rng.choice([None, 0, 1, 42, 123456789, -7])
    cfg["verbose"] = rng.choice([0, 0, 0, 1, 2, 3])  # logging level: must not change any result
    cfg["derived_batch"] = rng.choice([None, None, 1, 2, 3, 7])  # hook H4, see GDef.graph
    if rng.random() < 0.12:
        cfg["memory_limit_gb"] = 1e-9  # documented as safe: only makes the library free memory more often
    return cfg


DEFAULT_CFG = {"batch_size": 2**20, "hash_chunk_size": 2**25, "random_seed": 1}
