"""Running `CayleyGraph.bfs` on the implementation, the model (`bfs` driver op) and the Spec oracle
(`spec.layers`), in canonical form."""

import torch

from .core import CaseTimeout, time_limit
from .graphs import GDef, drain_events


def make_stop(gd: GDef, graph, spec, trace, flavour="bool"):
    """Python twin of the driver's stop specifications. `trace` records (call index, layer size).  `flavour`: the type in
    which the callback reports its decision (Python bool, 0-dim torch tensor as from torch.any, numpy.bool_, a count)."""
    if spec is None or spec[0] == "none":
        return None
    inner = _make_stop(gd, graph, spec, trace)
    if flavour == "bool":
        return inner

    def cb(layer2, layer2_hashes):
        import numpy as np

        res = bool(inner(layer2, layer2_hashes))
        return torch.tensor(res) if flavour == "torch" else np.bool_(res) if flavour == "numpy" else (3 if res else 0)

    return cb


def _make_stop(gd: GDef, graph, spec, trace):
    kind = spec[0]
    cnt = [0]

    def cb(layer2, layer2_hashes):
        cnt[0] += 1
        trace.append((cnt[0], int(layer2.shape[0]), int(layer2_hashes.shape[0])))
        if kind == "never":
            return False
        if kind == "at":
            return cnt[0] == spec[1]
        if kind == "size":
            return layer2.shape[0] >= spec[1]
        if kind == "has":
            rows = gd.pack_rows(graph.decode_states(layer2))
            return spec[1] in rows
        raise ValueError(kind)

    return cb


def stop_to_line(spec):
    if spec is None:
        return "none"
    return " ".join(str(x) for x in spec)


def run_impl(gd: GDef, cfg: dict, opts: dict, starts=None, stop=None, limit_s=60, flavour="bool"):
    """Runs the real BFS. Returns canonical dict (or {'error': repr}).  A timeout is retried once with a much longer
    limit (a loaded machine or a tiny batch size on a big orbit is slow, not wrong); only a second timeout is reported."""
    out = _run_impl(gd, cfg, opts, starts, stop, limit_s, flavour)
    if "error" in out and out["error"].startswith("Timeout"):
        out = _run_impl(gd, cfg, opts, starts, stop, limit_s * 4 + 60, flavour)
        if "error" not in out:
            out["slow"] = True
    return out


def _run_impl(gd: GDef, cfg: dict, opts: dict, starts=None, stop=None, limit_s=60, flavour="bool"):
    drain_events()
    try:
        with time_limit(limit_s):
            graph = gd.graph(**cfg)
            trace = []
            kw = dict(opts)
            cb = make_stop(gd, graph, stop, trace, flavour)
            if cb is not None:
                kw["stop_condition"] = cb
            if starts is not None:
                kw["start_states"] = starts
            r = graph.bfs(**kw)
    except CaseTimeout as ex:
        return {"error": f"Timeout: {ex}"}
    except (AssertionError, OverflowError, RuntimeError, IndexError, ValueError, TypeError) as ex:
        return {"error": f"{type(ex).__name__}: {ex}"[:300]}
    out = {
        "sizes": [int(x) for x in r.layer_sizes],
        "completed": bool(r.bfs_completed),
        "stored": {int(k): sorted(gd.pack_rows(v)) for k, v in r.layers.items()},
        "n_hashes": len(r.layers_hashes),
        "hash_lens": [int(len(h)) for h in r.layers_hashes],
        "cb": [t[0] for t in trace],
        "cb_sizes": [t[1] for t in trace],
        "diameter": int(r.diameter()),
        "num_vertices": int(r.num_vertices),
        "events": drain_events(),
        "result": r,
        "graph": graph,
    }
    # internal consistency of hashes with stored layers (same hasher)
    hs_ok = True
    for i, h in enumerate(r.layers_hashes):
        if i in r.layers and len(r.layers[i]) > 0:
            want = graph.hasher.make_hashes(graph.encode_states(r.layers[i]))
            if sorted(want.tolist()) != sorted(h.tolist()):
                hs_ok = False
            if sorted(h.tolist()) != h.tolist() and not opts.get("return_all_edges"):
                hs_ok = hs_ok and False
    out["hashes_match_layers"] = hs_ok
    return out


def bfs_defaults():
    """Defaults of BfsAlgorithm.bfs, read from the implementation's signature (the properties do not fix them)."""
    import inspect

    from cayleypy.algo import BfsAlgorithm

    sig = inspect.signature(BfsAlgorithm.bfs).parameters
    return {k: sig[k].default for k in ("max_layer_size_to_store", "max_layer_size_to_explore", "max_diameter") if k in sig}


def with_defaults(opts: dict) -> dict:
    d = bfs_defaults()
    out = dict(opts)
    for k, v in d.items():
        out.setdefault(k, v)
    return out


def opts_to_line(opts: dict):
    opts = with_defaults(opts)
    ms = opts.get("max_layer_size_to_store", 1000)
    return " ".join(
        str(x)
        for x in [
            -1 if ms is None else ms,
            opts.get("max_layer_size_to_explore", 10**12),
            opts.get("max_diameter", 1000000),
            1 if opts.get("return_all_edges") else 0,
            1 if opts.get("return_all_hashes") else 0,
            1 if opts.get("disable_batching") else 0,
        ]
    )


def parse_model_bfs(line: str):
    if line.startswith("ERR"):
        return {"error": line}
    parts = [p.strip() for p in line.split(";")]
    sizes = [int(x) for x in parts[0].split()]
    stored = {}
    if parts[2]:
        for ent in parts[2].split("|"):
            k, _, rows = ent.partition(":")
            stored[int(k)] = sorted(int(x) for x in rows.split())
    hashes = [[int(x) for x in h.split()] for h in parts[4].split("|")] if int(parts[3]) > 0 else []
    edges = None
    if parts[5] != "none":
        edges = [tuple(int(y) for y in e.split(",")) for e in parts[5].split()]
    return {
        "sizes": sizes,
        "completed": parts[1] == "1",
        "stored": stored,
        "n_hashes": int(parts[3]),
        "hash_lens": [len(h) for h in hashes],
        "hashes": hashes,
        "edges": edges,
        "cb": [int(x) for x in parts[6].split()],
    }


def run_model(drv, gd: GDef, cfg: dict, opts: dict, starts_packed, stop=None):
    drv.ask(f"batch {cfg.get('batch_size', 2**20)}")
    line = f"bfs ; {' '.join(map(str, starts_packed))} ; {opts_to_line(opts)} ; {stop_to_line(stop)}"
    return parse_model_bfs(drv.ask(line))


def spec_layers(drv, starts_packed, depth=10**9):
    line = drv.ask(f"spec.layers {depth} ; {' '.join(map(str, starts_packed))}")
    if line.startswith("ERR"):
        raise RuntimeError(line)
    return [[int(x) for x in p.split()] for p in line.split("|")]


def compare(a: dict, b: dict, keys):
    """Returns list of keys on which canonical results differ."""
    if "error" in a or "error" in b:
        return [] if ("error" in a and "error" in b) else ["error"]
    return [k for k in keys if a.get(k) != b.get(k)]
