"""One graph under test, set up on both sides: the real CayleyGraph and the Lean driver (same definition,
the implementation's hash values passed to the model as a table), plus Spec-level oracles."""

import numpy as np
import torch

from .core import CaseTimeout, time_limit
from .graphs import GDef, drain_events


class Ctx:
    def __init__(self, ck, gd: GDef, cfg: dict, extra_states=(), cap=4000):
        self.ck = ck
        self.gd = gd
        self.cfg = dict(cfg)
        self.drv = ck.driver()
        self.ok = False
        self.reason = ""
        cands = gd.inverse_candidates() if gd.kind == "mat" else None
        r = gd.send(self.drv, cands)
        if isinstance(r[0], str):
            self.reason = "model rejects definition: " + r[0]
            return
        self.inv_closed, self.invertible = r
        if gd.kind == "mat" and cands is None:
            self.invertible = False
        try:
            self.g = gd.graph(**cfg)
        except (AssertionError, OverflowError, RuntimeError, ValueError) as ex:
            self.reason = f"constructor raised {type(ex).__name__}: {ex}"
            return
        # closure of central + extra states under the generators (plain Python; sizing and hash table only)
        starts = [tuple(gd.central)] + [tuple(int(x) for x in s) for s in extra_states]
        layers = gd.brute_layers(starts=starts, cap=cap)
        if layers is None:
            self.reason = "closure exceeds cap"
            return
        self.states = [s for l in layers for s in l]
        self.send_table()
        self.drv.ask(f"central {gd.pack(gd.central)}")
        self.drv.ask(f"batch {cfg.get('batch_size', 2**20)}")
        # proven oracle: distance classes from the central state
        self.layers = self.spec_layers([gd.pack(gd.central)])
        self.dist = {s: i for i, l in enumerate(self.layers) for s in l}
        self.ok = True

    def real_hashes(self, states):
        t = torch.tensor([list(s) for s in states], dtype=torch.int64)
        return self.g.hasher.make_hashes(self.g.encode_states(t)).tolist()

    def send_table(self):
        hs = self.real_hashes(self.states)
        self.hash_of = {self.gd.pack(s): h for s, h in zip(self.states, hs)}
        if len(set(hs)) != len(hs):
            # a genuine 64-bit collision inside a tiny orbit would be a C03 matter; report loudly
            self.ck.correspondence_break("hash table: two distinct states of the closure share a hash", {"gd": self.gd.to_json(), "cfg": self.cfg})
        flat = " ".join(f"{k} {v}" for k, v in self.hash_of.items())
        self.drv.ask("H ; " + flat)

    def spec_layers(self, starts_packed, depth=10**9):
        line = self.drv.ask(f"spec.layers {depth} ; {' '.join(map(str, starts_packed))}")
        return [[int(x) for x in p.split()] for p in line.split("|")]

    # ---- Spec-level helpers (plain Python arithmetic on tuples)
    def apply_path(self, state, path):
        s = tuple(int(x) for x in state)
        for i in path:
            if not 0 <= i < len(self.gd.gens):
                return None
            s = self.gd.act(i, s)
        return s

    def dist_from_central(self, state):
        return self.dist.get(self.gd.pack(state))

    def dists_from(self, state, depth=10**9):
        ls = self.spec_layers([self.gd.pack(state)], depth)
        return {s: i for i, l in enumerate(ls) for s in l}

    def layers_line(self, layers_hashes):
        return " | ".join(" ".join(str(int(x)) for x in h.tolist()) for h in layers_hashes)


def call(fn, *a, limit_s=60, **kw):
    """Runs an implementation call with a time limit; returns ('ok', value) or ('error', text).
    A timeout is retried once with a much longer limit before it is reported."""
    st, v = _call(fn, *a, limit_s=limit_s, **kw)
    if st == "error" and str(v).startswith("Timeout"):
        st, v = _call(fn, *a, limit_s=limit_s * 4 + 60, **kw)
    return st, v


def _call(fn, *a, limit_s=60, **kw):
    drain_events()
    try:
        with time_limit(limit_s):
            return "ok", fn(*a, **kw)
    except CaseTimeout as ex:
        return "error", f"Timeout: {ex}"
    except (AssertionError, OverflowError, RuntimeError, IndexError, ValueError, TypeError, KeyError, AttributeError) as ex:
        return "error", f"{type(ex).__name__}: {ex}"[:300]


def parse_path_res(line: str):
    """driver PathRes -> ('found', [..]) | ('none', None) | ('assert', None)"""
    if line.startswith("found"):
        return "found", [int(x) for x in line.split()[1:]]
    if line == "none":
        return "none", None
    if line == "assert":
        return "assert", None
    raise RuntimeError("driver: " + line)


def states_tensor(rows):
    return torch.tensor([list(map(int, r)) for r in rows], dtype=torch.int64)


def to_list(t):
    return np.asarray(t.cpu() if hasattr(t, "cpu") else t).reshape(-1).tolist()


CONTAINERS = ["list", "tuple", "np.int64", "np.int32", "np.int16", "np.uint8", "np.int8", "torch.int64", "torch.int32", "torch.int16", "torch.uint8", "torch.int8"]
# the same logical content in another memory layout: transposed strides, a column cut out of a wider array, every
# second element of a longer array
LAYOUT_KINDS = ["np.int64:T", "np.int32:T", "torch.int64:T", "torch.int16:T", "np.int64:col", "torch.int64:col", "np.int64:strided", "torch.int32:strided"]
_CMAX = {"int64": 2**63 - 1, "int32": 2**31 - 1, "int16": 2**15 - 1, "uint8": 255, "int8": 127}


def pick_container(rng, maxval, minval=0, layouts=True):
    """A container kind (recorded in the case) whose dtype can hold every entry of the states."""

    def fits(c):
        dt = c.split(":")[0].split(".")[1]
        return maxval <= _CMAX[dt] and (minval >= 0 or "uint" not in dt) and minval >= -_CMAX[dt]

    ok = [c for c in CONTAINERS + (LAYOUT_KINDS if layouts else []) if "." not in c or fits(c)]
    return rng.choice(ok)


def container(kind, rows, mshape=None):
    """The same state(s) in the named container: AnyStateType is Union[torch.Tensor, np.ndarray, list].
    `mshape` = (n, m) gives matrix-group states their n x m shape in array containers with a layout."""
    single = not (rows and isinstance(rows[0], (list, tuple)))
    if kind == "list":
        return list(map(int, rows)) if single else [list(map(int, r)) for r in rows]
    if kind == "tuple":
        return tuple(map(int, rows)) if single else tuple(tuple(map(int, r)) for r in rows)
    base, _, layout = kind.partition(":")
    lib, dt = base.split(".")
    a = np.array(rows, dtype=getattr(np, dt))
    if layout:
        if mshape is not None and mshape[0] > 1 and mshape[1] > 1:
            a = a.reshape(tuple(mshape) if single else (-1,) + tuple(mshape))
        if layout == "col" and not single:
            layout = "strided"
        if layout == "T" and a.ndim < 2:
            layout = "col"
        if layout == "T":
            a = np.ascontiguousarray(np.swapaxes(a, -1, -2)).swapaxes(-1, -2)
        elif layout == "col":
            big = np.stack([a.reshape(-1), np.full(a.size, 7, dtype=a.dtype)], axis=1)
            a = big[:, 0:1]
        elif layout == "strided":
            big = np.repeat(a, 2, axis=-1)
            big[..., 1::2] = 7
            a = big[..., ::2]
    return a if lib == "np" else torch.from_numpy(a) if layout else torch.tensor(rows, dtype=getattr(torch, dt))
