"""Translator: a small pure-Python subset -> Lean 4 (shallow embedding in the `Option` monad).

Used on `cayleypy/permutation_utils.py` (-> CvGen/PyPerm.lean) and on the `PermutationGroups` constructors of
`cayleypy/graphs_lib.py` (-> CvGen/PyFamilies.lean).  Semantics of the target primitives: `CvModel/PyPrelude.lean`.

Design rules (soundness of the tie):
  * the translator never guesses: anything outside the subset raises `Unsupported` and the function is NOT
    emitted (the theorems that mention it then fail to build, which the checks treat as a broken obligation);
  * Python `int` -> `Int`; exceptions (assert / IndexError / ZeroDivisionError) -> `none`;
  * loops become `List.foldlM` over the iterated list with the tuple of the variables the body assigns
    (and that exist before the loop) as state; `if` statements become `if … then … else …` returning the
    tuple of assigned variables; straight-line assignments become shadowing `let`s;
  * sub-expressions that can raise (`x[i]`, `a % b` with a non-literal divisor, calls of translated
    functions) are hoisted, in evaluation order, into monadic binds before the statement that contains
    them; they are rejected under `and` / `or` / conditional expressions (short-circuit evaluation).
"""
import ast
import json
import sys

RESERVED = {"end", "from", "at", "in", "do", "then", "else", "if", "let", "fun", "have", "show", "by", "match",
            "with", "where", "open", "namespace", "section", "def", "theorem", "instance", "structure", "class",
            "Type", "Prop", "Sort", "mut", "for", "return", "pure", "some", "none", "st", "e", "f", "g", "w"}


class Unsupported(Exception):
    pass


class Cell:
    """unification variable for element types of `[]`"""
    def __init__(self):
        self.ref = None


def resolve(t):
    while isinstance(t, Cell) and t.ref is not None:
        t = t.ref
    if isinstance(t, tuple) and t[0] in ("List", "Dict", "Opt"):
        return (t[0], resolve(t[1]))
    if isinstance(t, tuple) and t[0] == "Tup":
        return ("Tup", tuple(resolve(x) for x in t[1]))
    if isinstance(t, tuple) and t[0] == "KDict":
        return ("KDict", resolve(t[1]), resolve(t[2]))
    return t


def unify(a, b):
    a, b = resolve(a), resolve(b)
    if a is b or a == b:
        return a
    if isinstance(a, Cell):
        a.ref = b
        return b
    if isinstance(b, Cell):
        b.ref = a
        return a
    if isinstance(a, tuple) and isinstance(b, tuple) and a[0] == b[0] and a[0] in ("List", "Dict", "Opt"):
        return (a[0], unify(a[1], b[1]))
    if isinstance(a, tuple) and isinstance(b, tuple) and a[0] == b[0] == "Tup" and len(a[1]) == len(b[1]):
        return ("Tup", tuple(unify(x, y) for x, y in zip(a[1], b[1])))
    raise Unsupported(f"type mismatch {show_ty(a)} vs {show_ty(b)}")


def show_ty(t):
    t = resolve(t)
    if isinstance(t, Cell):
        return "Int"  # never constrained: any element type works; Int keeps the term closed
    if t == "Int":
        return "Int"
    if t == "Bool":
        return "Bool"
    if t == "Str":
        return "String"
    if t == "Def":
        return "RawDef"
    if t == "Unit":
        return "Unit"
    if isinstance(t, tuple) and t[0] == "List":
        inner = show_ty(t[1])
        return f"List {inner}" if " " not in inner else f"List ({inner})"
    if isinstance(t, tuple) and t[0] == "KDict":
        k_, v_ = show_ty(t[1]), show_ty(t[2])
        return "List (" + (k_ if " " not in k_ else f"({k_})") + " × " + (v_ if " " not in v_ else f"({v_})") + ")"
    if isinstance(t, tuple) and t[0] == "Tup":
        parts = [show_ty(x) for x in t[1]]
        return " × ".join(q if " " not in q else f"({q})" for q in parts)
    if isinstance(t, tuple) and t[0] == "Opt":
        inner = show_ty(t[1])
        return f"Option {inner}" if " " not in inner else f"Option ({inner})"
    if isinstance(t, tuple) and t[0] == "StrPair":
        inner = show_ty(t[1])
        return f"String × {inner}" if " " not in inner else f"String × ({inner})"
    if isinstance(t, tuple) and t[0] == "Dict":
        inner = show_ty(t[1])
        return f"List (String × {inner})" if " " not in inner else f"List (String × ({inner}))"
    if isinstance(t, tuple) and t[0] == "Pair":
        inner = show_ty(t[1])
        return f"Int × {inner}" if " " not in inner else f"Int × ({inner})"
    raise Unsupported(f"type {t}")


def ann_type(a):
    if a is None:
        return "Int"   # un-annotated parameter: `int` is assumed; a wrong guess makes the generated Lean ill-typed (build failure), never silently different
    s = ast.unparse(a)
    table = {"int": "Int", "bool": "Bool", "str": "Str",
             "Sequence[int]": ("List", "Int"), "list[int]": ("List", "Int"), "Any": ("List", "Int"),
             "Sequence[Any]": ("List", "Int"), "list[list[int]]": ("List", ("List", "Int")),
             "list[Any]": ("List", "Int"), "Dict[str, list[int]]": ("Dict", ("List", "Int")),
             "List": ("List", "Int"), "List[int]": ("List", "Int"), "list": ("List", "Int"),
             "list[str]": ("List", "Str"), "Optional[list[int]]": ("Opt", ("List", "Int"))}
    if s not in table:
        raise Unsupported(f"annotation {s}")
    return table[s]


def lean_str(s):
    out = []
    for ch in s:
        if ch == '"':
            out.append('\\"')
        elif ch == "\\":
            out.append("\\\\")
        elif ch == "\n":
            out.append("\\n")
        elif ord(ch) < 32 or ord(ch) > 126:
            out.append("\\u{%x}" % ord(ch))
        else:
            out.append(ch)
    return '"' + "".join(out) + '"'


def nonzero_literal(node):
    if isinstance(node, ast.Constant) and isinstance(node.value, int) and not isinstance(node.value, bool):
        return node.value != 0
    if isinstance(node, ast.UnaryOp) and isinstance(node.op, ast.USub):
        return nonzero_literal(node.operand)
    return False


class Sig:
    def __init__(self, name, lean_name, params, ret):
        self.name, self.lean_name, self.params, self.ret = name, lean_name, params, ret  # params: [(name, type, default_node)]


class FnTranslator:
    def __init__(self, sigs, lean_prefix):
        self.sigs = sigs          # python name -> Sig (callable translated functions)
        self.prefix = lean_prefix
        self.tmp = 0
        self.extra_defs = []      # hoisted local helper functions (Lean text)

    # ---- names
    def nm(self, s):
        return s + "_" if s in RESERVED or s.startswith("t_") else s

    def fresh(self):
        self.tmp += 1
        return f"t_{self.tmp}"

    # ---- expressions: returns (binds, code, type)
    def expr(self, n, env, pure_only=False):
        binds, code, ty = self._expr(n, env)
        if pure_only and binds:
            raise Unsupported("sub-expression that can raise under short-circuit / conditional evaluation")
        return binds, code, ty

    def _expr(self, n, env):
        if isinstance(n, ast.Constant):
            if isinstance(n.value, bool):
                return [], ("true" if n.value else "false"), "Bool"
            if isinstance(n.value, int):
                return [], f"({n.value} : Int)", "Int"
            if isinstance(n.value, str):
                return [], lean_str(n.value), "Str"
            if n.value is None:
                return [], "none", ("Opt", Cell())
            raise Unsupported(f"constant {n.value!r}")
        if isinstance(n, ast.Name):
            if n.id not in env:
                raise Unsupported(f"name {n.id} is not a local variable here")
            t = resolve(env[n.id])
            if isinstance(t, tuple) and t[0] == "Opt" and n.id in getattr(self, "nonnull", ()):
                # inside `if <name> is not None:` the variable holds a value
                v = self.fresh()
                return [f"let {v} ← {self.nm(n.id)}"], v, t[1]
            return [], self.nm(n.id), env[n.id]
        if isinstance(n, ast.UnaryOp):
            b, c, t = self._expr(n.operand, env)
            if isinstance(n.op, ast.USub):
                unify(t, "Int")
                return b, f"(-{c})", "Int"
            if isinstance(n.op, ast.Not):
                unify(t, "Bool")
                return b, f"(!{c})", "Bool"
            raise Unsupported("unary operator")
        if isinstance(n, ast.BinOp):
            return self.binop(n, env)
        if isinstance(n, ast.BoolOp):
            parts = []
            for v in n.values:
                _, c, t = self.expr(v, env, pure_only=True)
                unify(t, "Bool")
                parts.append(c)
            op = " && " if isinstance(n.op, ast.And) else " || "
            return [], "(" + op.join(parts) + ")", "Bool"
        if isinstance(n, ast.Compare):
            return self.compare(n, env)
        if isinstance(n, ast.List):
            binds, cs = [], []
            et = Cell()
            for e in n.elts:
                b, c, t = self._expr(e, env)
                binds += b
                cs.append(c)
                et = unify(et, t)
            return binds, "[" + ", ".join(cs) + "]", ("List", et)
        if isinstance(n, ast.Subscript):
            if isinstance(n.slice, ast.Slice):
                if n.slice.step is not None:
                    if n.slice.lower is None and n.slice.upper is None and isinstance(n.slice.step, ast.UnaryOp) \
                            and isinstance(n.slice.step.op, ast.USub) and isinstance(n.slice.step.operand, ast.Constant) \
                            and n.slice.step.operand.value == 1:
                        b1, c1, t1 = self._expr(n.value, env)
                        unify(t1, ("List", Cell()))
                        return b1, f"(List.reverse {c1})", t1       # x[::-1]
                    raise Unsupported("slice with a step")
                b1, c1, t1 = self._expr(n.value, env)
                unify(t1, ("List", Cell()))
                binds, parts = list(b1), []
                for e in (n.slice.lower, n.slice.upper):
                    if e is None:
                        parts.append("none")
                    else:
                        b, c, t = self._expr(e, env)
                        unify(t, "Int")
                        binds += b
                        parts.append(f"(some {c})")
                return binds, f"(pySlice {c1} {parts[0]} {parts[1]})", t1
            b1, c1, t1 = self._expr(n.value, env)
            b2, c2, t2 = self._expr(n.slice, env)
            if isinstance(resolve(t1), tuple) and resolve(t1)[0] == "KDict":
                unify(t2, resolve(t1)[1])
                v = self.fresh()
                return b1 + b2 + [f"let {v} ← pyKGet {c1} {c2}"], v, resolve(t1)[2]
            if isinstance(resolve(t1), tuple) and resolve(t1)[0] == "Dict":
                unify(t2, "Str")
                v = self.fresh()
                return b1 + b2 + [f"let {v} ← pyDictGet {c1} {c2}"], v, resolve(t1)[1]
            unify(t2, "Int")
            et = Cell()
            unify(t1, ("List", et))
            v = self.fresh()
            return b1 + b2 + [f"let {v} ← pyGet {c1} {c2}"], v, et
        if isinstance(n, ast.ListComp):
            return self.listcomp(n, env)
        if isinstance(n, ast.JoinedStr):
            binds, parts = [], []
            for v in n.values:
                if isinstance(v, ast.Constant):
                    parts.append(lean_str(v.value))
                elif isinstance(v, ast.FormattedValue):
                    if v.conversion != -1 or v.format_spec is not None:
                        raise Unsupported("format spec")
                    b, c, t = self._expr(v.value, env)
                    binds += b
                    t = resolve(t)
                    if t == "Int":
                        parts.append(f"pyStr {c}")
                    elif t == "Str":
                        parts.append(c)
                    else:
                        raise Unsupported("f-string of a non-int, non-str value")
                else:
                    raise Unsupported("f-string part")
            if not parts:
                return binds, '""', "Str"
            return binds, "(" + " ++ ".join(parts) + ")", "Str"
        if isinstance(n, ast.Call):
            return self.call(n, env)
        if isinstance(n, ast.Tuple) and len(n.elts) >= 2:
            binds, cs, ts = [], [], []
            for e in n.elts:
                b, c, t = self._expr(e, env)
                binds += b
                cs.append(c)
                ts.append(t)
            return binds, "(" + ", ".join(cs) + ")", ("Tup", tuple(ts))
        if isinstance(n, (ast.DictComp, ast.SetComp)):
            if len(n.generators) != 1 or n.generators[0].ifs or not isinstance(n.generators[0].target, ast.Name):
                raise Unsupported("comprehension shape")
            g = n.generators[0]
            b_it, c_it, t_it = self.iter_expr(g.iter, env)
            var = g.target.id
            env2 = dict(env)
            env2[var] = resolve(t_it)[1]
            v = self.fresh()
            if isinstance(n, ast.SetComp):
                # a set is used for membership only: the list of its elements
                b_el, c_el, t_el = self._expr(n.elt, env2)
                body = "; ".join(b_el + [f"pure {c_el}"])
                return b_it + [f"let {v} ← List.mapM (fun {self.nm(var)} => do {body}) {c_it}"], v, ("List", t_el)
            bk, ck, tk = self._expr(n.key, env2)
            bv, cv, tv = self._expr(n.value, env2)
            body = "; ".join(bk + bv + [f"pure (pyKSet d_ {ck} {cv})"])
            kt, vt = show_ty(tk), show_ty(tv)
            return b_it + [f"let {v} ← List.foldlM (fun (d_ : List (({kt}) × ({vt}))) {self.nm(var)} => do {body}) [] {c_it}"], v, ("KDict", tk, tv)
        if isinstance(n, ast.Dict) and not n.keys:
            return [], "[]", ("Dict", Cell())
        if isinstance(n, ast.IfExp):
            _, cc, ct = self.expr(n.test, env, pure_only=True)
            unify(ct, "Bool")
            _, c1, t1 = self.expr(n.body, env, pure_only=True)
            _, c2, t2 = self.expr(n.orelse, env, pure_only=True)
            return [], f"(if {cc} then {c1} else {c2})", unify(t1, t2)
        raise Unsupported(f"expression {type(n).__name__}")

    def binop(self, n, env):
        b1, c1, t1 = self._expr(n.left, env)
        b2, c2, t2 = self._expr(n.right, env)
        binds = b1 + b2
        t1r, t2r = resolve(t1), resolve(t2)
        if isinstance(n.op, ast.Add):
            if isinstance(t1r, tuple) or isinstance(t2r, tuple):
                return binds, f"({c1} ++ {c2})", unify(t1, t2)
            if t1r == "Str" or t2r == "Str":
                unify(t1, "Str"), unify(t2, "Str")
                return binds, f"({c1} ++ {c2})", "Str"
            unify(t1, "Int"), unify(t2, "Int")
            return binds, f"({c1} + {c2})", "Int"
        if isinstance(n.op, ast.Mult):
            if isinstance(t1r, tuple) and t1r[0] == "List" and isinstance(n.left, ast.List) and len(n.left.elts) == 1:
                unify(t2, "Int")
                inner = self._expr(n.left.elts[0], env)
                return binds, f"(pyRepeat {inner[1]} {c2})", t1
            unify(t1, "Int"), unify(t2, "Int")
            return binds, f"({c1} * {c2})", "Int"
        if isinstance(n.op, ast.Sub):
            unify(t1, "Int"), unify(t2, "Int")
            return binds, f"({c1} - {c2})", "Int"
        if isinstance(n.op, (ast.Mod, ast.FloorDiv)):
            unify(t1, "Int"), unify(t2, "Int")
            is_mod = isinstance(n.op, ast.Mod)
            if nonzero_literal(n.right):
                return binds, (f"(Int.fmod {c1} {c2})" if is_mod else f"(Int.fdiv {c1} {c2})"), "Int"
            v = self.fresh()
            f = "pyMod" if is_mod else "pyFloorDiv"
            return binds + [f"let {v} ← {f} {c1} {c2}"], v, "Int"
        raise Unsupported(f"operator {type(n.op).__name__}")

    def compare(self, n, env):
        binds, operands = [], []
        for k, e in enumerate([n.left] + list(n.comparators)):
            if isinstance(e, ast.Tuple) and k >= 1 and isinstance(n.ops[k - 1], (ast.In, ast.NotIn)):
                e = ast.List(elts=e.elts, ctx=ast.Load())   # `x in (1, 2)`
            b, c, t = self._expr(e, env)
            if b and k >= 2:
                # the third and later operands of a chain are evaluated only if the earlier comparisons hold
                raise Unsupported("comparison chain whose later operand can raise")
            binds += b
            operands.append((c, t, e))
        if len(n.ops) == 1 and isinstance(n.ops[0], (ast.Is, ast.IsNot)) and isinstance(n.comparators[0], ast.Constant) \
                and n.comparators[0].value is None and isinstance(n.left, ast.Name) and n.left.id in env:
            t = resolve(env[n.left.id])
            if not (isinstance(t, tuple) and t[0] == "Opt"):
                raise Unsupported("`is None` on a variable that is never None")
            c = f"(Option.isSome {self.nm(n.left.id)})"
            return [], (c if isinstance(n.ops[0], ast.IsNot) else f"(!{c})"), "Bool"
        parts = []
        for i, op in enumerate(n.ops):
            (c1, t1, _), (c2, t2, e2) = operands[i], operands[i + 1]
            if isinstance(op, (ast.In, ast.NotIn)) and isinstance(resolve(t2), tuple) and resolve(t2)[0] == "KDict":
                unify(t1, resolve(t2)[1])
                sc = f"(pyKHas {c2} {c1})"
                parts.append(sc if isinstance(op, ast.In) else f"(!{sc})")
                continue
            if isinstance(op, (ast.In, ast.NotIn)) and resolve(t2) == "Str":
                unify(t1, "Str")
                sc = f"(pyStrContains {c2} {c1})"
                parts.append(sc if isinstance(op, ast.In) else f"(!{sc})")
                continue
            if isinstance(op, (ast.In, ast.NotIn)):
                unify(t2, ("List", t1))
                s = f"(List.contains {c2} {c1})"
                parts.append(s if isinstance(op, ast.In) else f"(!{s})")
                continue
            t = resolve(unify(t1, t2))
            if isinstance(op, ast.Eq):
                parts.append(f"({c1} == {c2})")
            elif isinstance(op, ast.NotEq):
                parts.append(f"({c1} != {c2})")
            else:
                if t != "Int":
                    raise Unsupported("ordering of non-int values")
                sym = {ast.Lt: "<", ast.LtE: "≤", ast.Gt: ">", ast.GtE: "≥"}[type(op)]
                parts.append(f"decide ({c1} {sym} {c2})")
        return binds, "(" + " && ".join(parts) + ")", "Bool"

    def iter_expr(self, it, env):
        """an iterable: `range(...)` or a list-typed expression"""
        if isinstance(it, ast.Call) and isinstance(it.func, ast.Name) and it.func.id == "range":
            return self.range_call(it, env)
        if isinstance(it, ast.Call) and isinstance(it.func, ast.Name) and it.func.id in ("permutations", "combinations") \
                and not it.keywords and 1 <= len(it.args) <= 2:
            # itertools.permutations(l[, r]) / combinations(l, r): lists of lists, in itertools' order
            b, c, t = self.iter_expr(it.args[0], env)
            unify(t, ("List", "Int"))
            if len(it.args) == 2:
                b2, c2, t2 = self._expr(it.args[1], env)
                unify(t2, "Int")
                fn = "pyPermutationsR" if it.func.id == "permutations" else "pyCombinations"
                return b + b2, f"({fn} {c} {c2})", ("List", ("List", "Int"))
            if it.func.id != "permutations":
                raise Unsupported("combinations without r")
            return b, f"(pyPermutations {c})", ("List", ("List", "Int"))
        b, c, t = self._expr(it, env)
        et = Cell()
        unify(t, ("List", et))
        return b, c, ("List", et)

    def range_call(self, n, env):
        if n.keywords or not 1 <= len(n.args) <= 3:
            raise Unsupported("range arguments")
        binds, cs = [], []
        for a in n.args:
            b, c, t = self._expr(a, env)
            unify(t, "Int")
            binds += b
            cs.append(c)
        if len(cs) == 1:
            cs = ["(0 : Int)", cs[0], "(1 : Int)"]
        elif len(cs) == 2:
            cs = [cs[0], cs[1], "(1 : Int)"]
        elif not nonzero_literal(n.args[2]):
            raise Unsupported("range step must be a non-zero literal")
        return binds, f"(pyRange {cs[0]} {cs[1]} {cs[2]})", ("List", "Int")

    def listcomp(self, n, env):
        if len(n.generators) != 1:
            raise Unsupported("comprehension with several generators")
        g = n.generators[0]
        if g.is_async or not isinstance(g.target, ast.Name):
            raise Unsupported("comprehension target")
        b_it, c_it, t_it = self.iter_expr(g.iter, env)
        var = g.target.id
        env2 = dict(env)
        env2[var] = resolve(t_it)[1]
        conds = []
        for cnd in g.ifs:
            _, cc, ct = self.expr(cnd, env2, pure_only=True)
            unify(ct, "Bool")
            conds.append(cc)
        src = c_it
        if conds:
            src = f"(List.filter (fun {self.nm(var)} => " + " && ".join(conds) + f") {c_it})"
        b_el, c_el, t_el = self._expr(n.elt, env2)
        if not b_el:
            return b_it, f"(List.map (fun {self.nm(var)} => {c_el}) {src})", ("List", t_el)
        v = self.fresh()
        body = "; ".join(b_el + [f"pure {c_el}"])
        return b_it + [f"let {v} ← List.mapM (fun {self.nm(var)} => do {body}) {src}"], v, ("List", t_el)

    def call(self, n, env):
        f = n.func
        if isinstance(f, ast.Name):
            name = f.id
            if name in ("list", "tuple") and len(n.args) == 1 and not n.keywords:
                return self.iter_expr(n.args[0], env)
            if name == "range":
                return self.range_call(n, env)
            if name == "len" and len(n.args) == 1:
                b, c, t = self._expr(n.args[0], env)
                unify(t, ("List", Cell()))
                return b, f"(pyLen {c})", "Int"
            if name == "str" and len(n.args) == 1:
                b, c, t = self._expr(n.args[0], env)
                unify(t, "Int")
                return b, f"(pyStr {c})", "Str"
            if name in ("min", "max") and len(n.args) == 1 and not n.keywords:
                b, c, t = self.iter_expr(n.args[0], env)
                unify(t, ("List", "Int"))
                v = self.fresh()
                return b + [f"let {v} ← {'pyMin' if name == 'min' else 'pyMax'} {c}"], v, "Int"
            if name == "sorted" and len(n.args) == 1 and not n.keywords:
                b, c, t = self.iter_expr(n.args[0], env)
                unify(t, ("List", "Int"))
                return b, f"(pySorted {c})", ("List", "Int")
            if name in ("any", "all") and len(n.args) == 1 and isinstance(n.args[0], ast.GeneratorExp) and not n.keywords:
                ge = n.args[0]
                if len(ge.generators) != 1 or ge.generators[0].ifs or not isinstance(ge.generators[0].target, ast.Name):
                    raise Unsupported("any/all generator")
                # any()/all() short-circuit: a raising element after the deciding one is never evaluated -> monadic fold
                b_it, c_it, t_it = self.iter_expr(ge.generators[0].iter, env)
                var = ge.generators[0].target.id
                env2 = dict(env)
                env2[var] = resolve(t_it)[1]
                b_el, c_el, t_el = self._expr(ge.elt, env2)
                unify(t_el, "Bool")
                v = self.fresh()
                body = "; ".join(b_el + [f"pure {c_el}"])
                fn = "pyAnyM" if name == "any" else "pyAllM"
                return b_it + [f"let {v} ← {fn} (fun {self.nm(var)} => do {body}) {c_it}"], v, "Bool"
            if name in self.sigs:
                return self.call_sig(self.sigs[name], n, env)
            raise Unsupported(f"call of {name}")
        if isinstance(f, ast.Attribute):
            # sep.join(map(str, l))
            if f.attr == "join" and len(n.args) == 1 and isinstance(n.args[0], ast.Call) \
                    and isinstance(n.args[0].func, ast.Name) and n.args[0].func.id == "map" \
                    and len(n.args[0].args) == 2 and isinstance(n.args[0].args[0], ast.Name) \
                    and n.args[0].args[0].id == "str":
                b1, c1, t1 = self._expr(f.value, env)
                unify(t1, "Str")
                b2, c2, t2 = self.iter_expr(n.args[0].args[1], env)
                unify(t2, ("List", "Int"))
                return b1 + b2, f"(pyJoin {c1} (List.map pyStr {c2}))", "Str"
            if ast.unparse(f) == "CayleyGraphDef.create":
                return self.create_call(n, env)
        raise Unsupported(f"call {ast.unparse(f)}")

    def call_sig(self, sig, n, env):
        given = {}
        if len(n.args) > len(sig.params):
            raise Unsupported("too many arguments")
        for (pname, _, _), a in zip(sig.params, n.args):
            given[pname] = a
        for kw in n.keywords:
            if kw.arg is None or kw.arg in given or kw.arg not in [p[0] for p in sig.params]:
                raise Unsupported("keyword argument")
            given[kw.arg] = kw.value
        binds, cs = [], []
        # Python evaluates positional arguments, then keywords, in source order; defaults are constants
        order = list(n.args) + [kw.value for kw in n.keywords]
        compiled = {}
        for a in order:
            b, c, t = self._expr(a, env)
            binds += b
            compiled[id(a)] = (c, t)
        for pname, pty, default in sig.params:
            if pname in given:
                c, t = compiled[id(given[pname])]
                unify(t, pty)
            else:
                if default is None:
                    raise Unsupported(f"missing argument {pname}")
                _, c, t = self.expr(default, {}, pure_only=True)
                unify(t, pty)
            cs.append(c)
        v = self.fresh()
        return binds + [f"let {v} ← {sig.lean_name} " + " ".join(cs)], v, sig.ret

    def create_call(self, n, env):
        if not n.args and any(kw.arg == "generators" for kw in n.keywords):
            gk = [kw for kw in n.keywords if kw.arg == "generators"][0]
            n = ast.Call(func=n.func, args=[gk.value], keywords=[kw for kw in n.keywords if kw is not gk])
        if not 1 <= len(n.args) <= 4:
            raise Unsupported("CayleyGraphDef.create positional arguments")
        binds, cg, tg = self._expr(n.args[0], env)
        unify(tg, ("List", ("List", "Int")))
        kws = {"central_state": ("none", ("List", "Int")), "generator_names": ("none", ("List", "Str")),
               "name": ("none", "Str")}
        vals = {}
        pos_names = ["generator_names", "central_state", "name"]   # signature order of `create` after `generators`
        extra = [ast.keyword(arg=pos_names[k], value=a) for k, a in enumerate(n.args[1:])]
        for kw in extra + list(n.keywords):
            if kw.arg not in kws or kw.arg in vals:
                raise Unsupported(f"CayleyGraphDef.create keyword {kw.arg}")
            b, c, t = self._expr(kw.value, env)
            unify(t, kws[kw.arg][1])
            binds += b
            vals[kw.arg] = f"(some {c})"
        fields = [vals.get(k, "none") for k in ("central_state", "generator_names", "name")]
        return binds, f"(RawDef.mk {cg} " + " ".join(fields) + ")", "Def"

    # ---- statements
    def assigned(self, stmts):
        """names assigned (in any way) by a statement list, in first-assignment order"""
        out = []

        def add(x):
            if x not in out:
                out.append(x)

        def tgt(t):
            if isinstance(t, ast.Name):
                add(t.id)
            elif isinstance(t, ast.Subscript) and isinstance(t.value, ast.Name):
                add(t.value.id)
            elif isinstance(t, ast.Tuple):
                for e in t.elts:
                    tgt(e)
            else:
                raise Unsupported("assignment target")

        for s in stmts:
            if isinstance(s, ast.Assign):
                for t in s.targets:
                    tgt(t)
            elif isinstance(s, ast.AugAssign):
                tgt(s.target)
            elif isinstance(s, ast.Expr) and isinstance(s.value, ast.Call) and isinstance(s.value.func, ast.Attribute) \
                    and s.value.func.attr in ("append", "extend", "remove") and isinstance(s.value.func.value, ast.Name):
                add(s.value.func.value.id)
            elif isinstance(s, ast.For):
                for x in self.assigned(s.body):
                    add(x)
                for nn in ast.walk(s.target):
                    if isinstance(nn, ast.Name):
                        add(nn.id)
            elif isinstance(s, ast.If):
                for x in self.assigned(s.body) + self.assigned(s.orelse):
                    add(x)
        return out

    def tuple_code(self, names):
        if not names:
            return "()"
        if len(names) == 1:
            return self.nm(names[0])
        return "(" + ", ".join(self.nm(x) for x in names) + ")"

    def tuple_type(self, names, env):
        if not names:
            return "Unit"
        tys = [show_ty(env[x]) for x in names]
        return " × ".join(t if " " not in t else f"({t})" for t in tys)

    def unpack(self, names, src, ind):
        """lines that rebind `names` from the tuple value `src`"""
        if not names:
            return []
        if len(names) == 1:
            return [f"{ind}let {self.nm(names[0])} := {src}"]
        lines = []
        proj = src
        for i, x in enumerate(names):
            if i < len(names) - 1:
                lines.append(f"{ind}let {self.nm(x)} := {proj}.1")
                proj = f"{proj}.2"
            else:
                lines.append(f"{ind}let {self.nm(x)} := {proj}")
        return lines

    def block(self, stmts, env, ind, tail):
        """statement list -> do-block lines; `tail` = the final `pure …` line's expression or None when the
        block must end in `return`"""
        lines = []
        env = dict(env)
        for k, s in enumerate(stmts):
            last = k == len(stmts) - 1
            if isinstance(s, ast.Expr) and isinstance(s.value, ast.Constant) and isinstance(s.value.value, str):
                continue  # docstring
            if isinstance(s, ast.Return):
                loop_ret = getattr(self, "loop_ret", None)
                if not last or (tail is not None and loop_ret is None):
                    raise Unsupported("return that is not the last statement of the function")
                b, c, t = self.ret_code(s.value, env)
                if loop_ret is not None and tail is not None:
                    lines += [ind + x for x in b] + [f"{ind}pure (some {c}, {loop_ret()})"]   # leave the loop with a value
                else:
                    lines += [ind + x for x in b] + [f"{ind}pure {c}"]
                return lines, env
            in_loop_ret = tail is not None and getattr(self, "loop_ret", None) is not None
            if isinstance(s, ast.If) and (tail is None or in_loop_ret) and self.ends_function(s.body) and (last or not s.orelse) \
                    and any(isinstance(x, ast.Return) for x in ast.walk(s)):
                # `if c: …; return X` followed by the rest of the function (or by an else branch that also returns):
                # the rest is the else branch
                b, c, t = self._expr(s.test, env)
                unify(t, "Bool")
                rest = s.orelse if (last and s.orelse) else stmts[k + 1:]
                if not rest and not in_loop_ret:
                    raise Unsupported("function may end without a return")
                ind2 = ind + "    "
                saved = set(getattr(self, "nonnull", ()))
                l1, _ = self.block(s.body, dict(env), ind2, tail)
                self.nonnull = saved
                l2, _ = self.block(rest, dict(env), ind2, tail)
                self.nonnull = saved
                lines += [ind + x for x in b] + [f"{ind}if {c} then do"] + l1 + [f"{ind}else do"] + l2
                return lines, env
            if isinstance(s, ast.For) and any(isinstance(x, ast.Return) for x in ast.walk(s)):
                if tail is not None:
                    raise Unsupported("return inside a nested loop")
                fold_lines, state = self.for_stmt(s, env, ind, early=True)
                ind2 = ind + "    "
                v = self.fresh()
                rest_lines, _ = self.block(stmts[k + 1:], dict(env), ind2, None)
                lines += fold_lines
                lines += [f"{ind}if (Option.isSome st.1) then do", f"{ind2}let {v} ← st.1", f"{ind2}pure {v}", f"{ind}else do"]
                lines += self.unpack(state, "st.2", ind2) + rest_lines
                return lines, env
            if isinstance(s, ast.Raise) and last:
                lines.append(f"{ind}none")     # the block ends by raising: no value
                self.raised_blocks = getattr(self, "raised_blocks", 0) + 1
                return lines, {**env, "__raises__": True}
            lines += self.stmt(s, env, ind)
        if tail is None:
            raise Unsupported("function without a final return")
        lines.append(f"{ind}pure {tail(env)}")
        return lines, env

    def ret_code(self, value, env):
        """code of a returned value; in a function that also has `return None` every other value is wrapped in `some`"""
        if value is None:
            raise Unsupported("bare return")
        if getattr(self, "ret_optional", False):
            if isinstance(value, ast.Constant) and value.value is None:
                t = ("Opt", Cell())
                self.ret_type = t if self.ret_type is None else unify(self.ret_type, t)
                return [], "none", self.ret_type
            b, c, t = self._expr(value, env)
            t = ("Opt", t)
            self.ret_type = t if self.ret_type is None else unify(self.ret_type, t)
            return b, f"(some {c})", self.ret_type
        b, c, t = self._expr(value, env)
        self.ret_type = t if self.ret_type is None else unify(self.ret_type, t)
        return b, c, self.ret_type

    def ends_function(self, stmts):
        """the statement list always leaves the function (its last statement is a return / raise, or an if whose
        branches all do)"""
        if not stmts:
            return False
        z = stmts[-1]
        if isinstance(z, (ast.Return, ast.Raise)):
            return True
        if isinstance(z, ast.If) and z.orelse:
            return self.ends_function(z.body) and self.ends_function(z.orelse)
        return False

    def stmt(self, s, env, ind):
        L = []
        if isinstance(s, ast.Assert):
            b, c, t = self._expr(s.test, env)
            unify(t, "Bool")
            tt = s.test
            if isinstance(tt, ast.Compare) and len(tt.ops) == 1 and isinstance(tt.ops[0], ast.IsNot) and isinstance(tt.left, ast.Name) \
                    and isinstance(tt.comparators[0], ast.Constant) and tt.comparators[0].value is None:
                self.nonnull = set(getattr(self, "nonnull", ())) | {tt.left.id}   # holds a value from here on
            return [ind + x for x in b] + [f"{ind}pyAssert {c}"]
        if isinstance(s, ast.AugAssign):
            if not isinstance(s.op, ast.Add):
                raise Unsupported("augmented assignment other than +=")
            s = ast.Assign(targets=[s.target], value=ast.BinOp(left=s.target, op=ast.Add(), right=s.value))
        if isinstance(s, ast.Assign):
            if len(s.targets) != 1:
                raise Unsupported("chained assignment")
            t = s.targets[0]
            if isinstance(t, ast.Tuple) and not isinstance(s.value, ast.Tuple):
                # `a, b = f(...)`: the value must be a tuple of that arity
                b, c, ty = self._expr(s.value, env)
                ty = resolve(ty)
                if not (isinstance(ty, tuple) and ty[0] == "Tup" and len(ty[1]) == len(t.elts)):
                    raise Unsupported("destructuring of a non-tuple value")
                v = self.fresh()
                L += [ind + x for x in b] + [f"{ind}let {v} := {c}"]
                proj = v
                for k, tg in enumerate(t.elts):
                    lastk = k == len(t.elts) - 1
                    L += self.assign_to(tg, proj if lastk else f"{proj}.1", ty[1][k], env, ind)
                    proj = f"{proj}.2"
                return L
            if isinstance(t, ast.Tuple):
                if not isinstance(s.value, ast.Tuple) or len(s.value.elts) != len(t.elts):
                    raise Unsupported("tuple assignment from a non-tuple")
                tmps = []
                for e in s.value.elts:
                    b, c, ty = self._expr(e, env)
                    v = self.fresh()
                    L += [ind + x for x in b] + [f"{ind}let {v} := {c}"]
                    tmps.append((v, ty))
                for tg, (v, ty) in zip(t.elts, tmps):
                    L += self.assign_to(tg, v, ty, env, ind)
                return L
            b, c, ty = self._expr(s.value, env)
            L += [ind + x for x in b]
            return L + self.assign_to(t, c, ty, env, ind)
        if isinstance(s, ast.Expr) and isinstance(s.value, ast.Call) and isinstance(s.value.func, ast.Attribute) \
                and s.value.func.attr in ("append", "extend") and isinstance(s.value.func.value, ast.Name) \
                and len(s.value.args) == 1 and not s.value.keywords:
            x = s.value.func.value.id
            if x not in env:
                raise Unsupported(f"{x}.append on an unknown variable")
            b, c, ty = self._expr(s.value.args[0], env)
            if s.value.func.attr == "append":
                unify(env[x], ("List", ty))
                return [ind + y for y in b] + [f"{ind}let {self.nm(x)} := {self.nm(x)} ++ [{c}]"]
            unify(env[x], ty)
            return [ind + y for y in b] + [f"{ind}let {self.nm(x)} := {self.nm(x)} ++ {c}"]
        if isinstance(s, ast.For):
            return self.for_stmt(s, env, ind)
        if isinstance(s, ast.If):
            return self.if_stmt(s, env, ind)
        if isinstance(s, ast.FunctionDef):
            self.local_def(s)
            return []
        if isinstance(s, ast.Pass):
            return []
        if isinstance(s, ast.Raise):
            return [f"{ind}pyRaise"]
        if isinstance(s, ast.Expr) and isinstance(s.value, ast.Call) and isinstance(s.value.func, ast.Attribute) \
                and s.value.func.attr == "remove" and isinstance(s.value.func.value, ast.Name) and len(s.value.args) == 1:
            x = s.value.func.value.id
            if x not in env:
                raise Unsupported(f"{x}.remove on an unknown variable")
            b, c, ty = self._expr(s.value.args[0], env)
            unify(env[x], ("List", ty))
            return [ind + y for y in b] + [f"{ind}let {self.nm(x)} ← pyRemove {self.nm(x)} {c}"]
        raise Unsupported(f"statement {type(s).__name__}")

    def assign_to(self, t, code, ty, env, ind):
        if isinstance(t, ast.Name):
            if t.id in env:
                cur = resolve(env[t.id])
                tyr = resolve(ty)
                if isinstance(cur, tuple) and cur[0] == "Opt" and not (isinstance(tyr, tuple) and tyr[0] == "Opt"):
                    unify(cur[1], ty)          # a value assigned to a variable that may hold None
                    code = f"(some {code})"
                    self.nonnull = set(getattr(self, "nonnull", ())) | {t.id}   # …holds a value from here to the end of the block
                else:
                    unify(env[t.id], ty)
            else:
                env[t.id] = ty
            return [("LET", ind, t.id, code, env[t.id])]
        if isinstance(t, ast.Subscript) and isinstance(t.value, ast.Name) and not isinstance(t.slice, ast.Slice):
            x = t.value.id
            if x not in env:
                raise Unsupported(f"{x}[…] = … on an unknown variable")
            b, c, ti = self._expr(t.slice, env)
            if isinstance(resolve(env[x]), tuple) and resolve(env[x])[0] == "Dict":
                unify(ti, "Str")
                unify(env[x], ("Dict", ty))
                return [ind + y for y in b] + [f"{ind}let {self.nm(x)} := pyDictSet {self.nm(x)} {c} {code}"]
            unify(ti, "Int")
            unify(env[x], ("List", ty))
            return [ind + y for y in b] + [f"{ind}let {self.nm(x)} ← pySet {self.nm(x)} {c} {code}"]
        raise Unsupported("assignment target")

    def for_stmt(self, s, env, ind, early=False):
        if s.orelse:
            raise Unsupported("for-else")
        it, target, enum_var = s.iter, s.target, None
        if isinstance(it, ast.Call) and isinstance(it.func, ast.Name) and it.func.id == "enumerate" and len(it.args) == 1 \
                and not it.keywords and isinstance(target, ast.Tuple) and len(target.elts) == 2 \
                and isinstance(target.elts[0], ast.Name):
            enum_var, target, it = target.elts[0].id, target.elts[1], it.args[0]
        items_loop = (isinstance(it, ast.Call) and isinstance(it.func, ast.Attribute) and it.func.attr == "items"
                      and not it.args and not it.keywords and isinstance(target, ast.Tuple) and len(target.elts) == 2
                      and all(isinstance(e, ast.Name) for e in target.elts))
        if items_loop:
            b_it, c_it, t_d = self._expr(it.func.value, env)
            vt = Cell()
            unify(t_d, ("Dict", vt))
            t_it = ("List", ("StrPair", vt))
        else:
            b_it, c_it, t_it = self.iter_expr(it, env)
        ind2 = ind + "    "
        pre = []
        env_body = dict(env)
        if items_loop:
            var = self.fresh()
            kname, vname = target.elts[0].id, target.elts[1].id
            pre += [f"{ind2}let {self.nm(kname)} : String := {var}.1", f"{ind2}let {self.nm(vname)} := {var}.2"]
            env_body[kname] = "Str"
            env_body[vname] = vt
            loop_vars = [kname, vname]
        elif isinstance(target, ast.Name):
            var = target.id
            env_body[var] = resolve(t_it)[1]
            loop_vars = [var]
        elif isinstance(target, ast.Tuple) and all(isinstance(e, ast.Name) for e in target.elts):
            # `for a, b, c in <list of lists>`: unpacking raises ValueError unless the arity matches
            et = Cell()
            unify(t_it, ("List", ("List", et)))
            var = self.fresh()
            env_body[var] = ("List", et)
            pre.append(f"{ind2}pyAssert ((pyLen {var}) == ({len(target.elts)} : Int))")
            for k, e in enumerate(target.elts):
                pre.append(f"{ind2}let {self.nm(e.id)} ← pyGet {var} ({k} : Int)")
                env_body[e.id] = et
            loop_vars = [e.id for e in target.elts]
        else:
            raise Unsupported("loop target")
        if enum_var is not None:
            c_it = f"(pyEnumerate {c_it})"
            inner_ty = resolve(t_it)[1]
            pair = self.fresh()
            pre = [f"{ind2}let {self.nm(enum_var)} : Int := {pair}.1", f"{ind2}let {var if var.startswith('t_') else self.nm(var)} := {pair}.2"] + pre
            env_body[enum_var] = "Int"
            loop_vars.append(enum_var)
            var_decl = (pair, ("Pair", inner_ty))
        else:
            var_decl = (var, t_it[1] if items_loop else resolve(t_it)[1])
        state = [x for x in self.assigned(s.body) if x in env and x not in loop_vars]
        body_lines = self.unpack(state, "st", ind2) + pre
        saved_nn = set(getattr(self, "nonnull", ()))
        if early:
            # a loop that may `return`: the fold state is (value returned so far : Option R, variables); once a value is
            # there the remaining iterations do nothing
            ind3 = ind2 + "    "
            body_lines = [f"{ind2}if (Option.isSome st.1) then pure st else do"] + \
                self.unpack(state, "st.2", ind3) + [ln.replace(ind2, ind3, 1) if isinstance(ln, str) else ln for ln in pre]
            saved_lr = getattr(self, "loop_ret", None)
            self.loop_ret = lambda: self.tuple_code(state)
            try:
                inner, _ = self.block(s.body, env_body, ind3, tail=lambda e: f"(none, {self.tuple_code(state)})")
            finally:
                self.nonnull = saved_nn
                self.loop_ret = saved_lr
            body_lines += inner
            L = [ind + x for x in b_it]
            L.append(("FOLDRET", ind, state, var_decl[0], c_it, body_lines, env, var_decl[1]))
            return L, state
        try:
            inner, _ = self.block(s.body, env_body, ind2, tail=lambda e: self.tuple_code(state))
        finally:
            self.nonnull = saved_nn
        body_lines += inner
        L = [ind + x for x in b_it]
        L.append(("FOLD", ind, state, var_decl[0], c_it, body_lines, env, var_decl[1]))
        return L

    def if_stmt(self, s, env, ind):
        b, c, t = self._expr(s.test, env)
        unify(t, "Bool")
        a_then, a_else = self.assigned(s.body), self.assigned(s.orelse)
        state = [x for x in a_then + a_else if x in env]

        def always(stmts, x):
            """every path through `stmts` that does not raise assigns `x`"""
            for st_ in stmts:
                if isinstance(st_, ast.Raise):
                    return True
                if isinstance(st_, ast.If):
                    if st_.orelse and always(st_.body, x) and always(st_.orelse, x):
                        return True
                elif x in self.assigned([st_]) and not isinstance(st_, ast.For):
                    return True
            return False

        both = [x for x in dict.fromkeys(a_then + a_else) if x not in env and always(s.body, x) and always(s.orelse, x)] if s.orelse else []
        state = list(dict.fromkeys(state + both))
        ind2 = ind + "    "
        envs = []

        def branch(stmts):
            e = dict(env)
            saved = set(getattr(self, "nonnull", ()))
            try:
                lines, e2 = self.block(stmts, e, ind2, tail=lambda ee: self.tuple_code(state))
            finally:
                self.nonnull = saved
            envs.append(e2)
            return lines

        nn = None
        if isinstance(s.test, ast.Compare) and len(s.test.ops) == 1 and isinstance(s.test.ops[0], ast.IsNot) \
                and isinstance(s.test.left, ast.Name) and isinstance(s.test.comparators[0], ast.Constant) \
                and s.test.comparators[0].value is None and s.test.left.id not in self.assigned(s.body):
            nn = s.test.left.id
        old_nn = set(getattr(self, "nonnull", ()))
        if nn:
            self.nonnull = old_nn | {nn}
        try:
            then_lines = branch(s.body)
        finally:
            self.nonnull = old_nn
        else_lines = branch(s.orelse) if s.orelse else [f"{ind2}pure {self.tuple_code(state)}"]
        for x in both:
            cands = [e_[x] for e_ in envs if x in e_]
            ty_ = cands[0]
            for c_ in cands[1:]:
                ty_ = unify(ty_, c_)
            env[x] = ty_
        L = [ind + x for x in b]
        L.append(("IF", ind, state, c, then_lines, else_lines, env))
        return L

    def local_def(self, s):
        free = {n.id for n in ast.walk(s) if isinstance(n, ast.Name)} - {a.arg for a in s.args.args}
        free -= {"list", "range", "len", "str", "sorted", "int", "bool", "Any"} | set(self.sigs)
        if free:
            raise Unsupported(f"local function {s.name} uses outer variables {sorted(free)}")
        sub = FnTranslator(self.sigs, self.prefix)
        text, sig = sub.function(s, lean_name=f"{self.cur_name}_{s.name}", annotate_default=("Int"))
        self.extra_defs += sub.extra_defs + [text]
        self.sigs = dict(self.sigs)
        self.sigs[s.name] = sig

    # ---- rendering of deferred lines (types are known only after unification)
    def render(self, lines):
        out = []
        for ln in lines:
            if isinstance(ln, str):
                out.append(ln)
            elif ln[0] == "LET":
                _, ind, x, code, ty = ln
                out.append(f"{ind}let {self.nm(x)} : {show_ty(ty)} := {code}")
            elif ln[0] == "FOLD":
                _, ind, state, var, c_it, body, env, vty = ln
                sty = self.tuple_type(state, env)
                vname = var if var.startswith("t_") else self.nm(var)
                out.append(f"{ind}let st ← List.foldlM (fun (st : {sty}) ({vname} : {show_ty(vty)}) => do")
                out += self.render(body)
                out.append(f"{ind}    ) {self.tuple_code(state)} {c_it}")
                out += self.unpack(state, "st", ind)
            elif ln[0] == "FOLDRET":
                _, ind, state, var, c_it, body, env, vty = ln
                sty = self.tuple_type(state, env)
                rty = show_ty(resolve(self.ret_type))
                rty = rty if " " not in rty else f"({rty})"
                vname = var if var.startswith("t_") else self.nm(var)
                out.append(f"{ind}let st ← List.foldlM (fun (st : Option {rty} × ({sty})) ({vname} : {show_ty(vty)}) => do")
                out += self.render(body)
                out.append(f"{ind}    ) (none, {self.tuple_code(state)}) {c_it}")
            elif ln[0] == "IF":
                _, ind, state, c, tl, el, env = ln
                sty = self.tuple_type(state, env)
                out.append(f"{ind}let st : {sty} ← (if {c} then do")
                out += self.render(tl)
                out.append(f"{ind}  else do")
                out += self.render(el)
                out.append(f"{ind}  )")
                out += self.unpack(state, "st", ind)
        return out

    def function(self, f, lean_name=None, annotate_default=None):
        if f.args.vararg or f.args.kwarg or f.args.posonlyargs:
            raise Unsupported("star arguments")
        check_value_semantics(f)
        args = list(f.args.args) + list(f.args.kwonlyargs)
        defaults = [None] * (len(f.args.args) - len(f.args.defaults)) + list(f.args.defaults) + list(f.args.kw_defaults)
        params, env = [], {}
        for a, d in zip(args, defaults):
            if a.annotation is None and annotate_default:
                ty = annotate_default
            else:
                ty = ann_type(a.annotation)
            params.append((a.arg, ty, d))
            env[a.arg] = ty
        self.cur_name = lean_name or f.name
        self.ret_type = None
        self.ret_optional = any(isinstance(x, ast.Return) and isinstance(x.value, ast.Constant) and x.value.value is None
                                for x in ast.walk(f))
        lines, _ = self.block(f.body, env, "  ", tail=None)
        body = self.render(lines)
        ret = show_ty(self.ret_type)
        ps = " ".join(f"({self.nm(p)} : {show_ty(t)})" for p, t, _ in params)
        name = lean_name or f.name
        text = f"def {name} {ps} : Option ({ret}) := do\n" + "\n".join(body) + "\n"
        dfl = []
        for p, t, d in params:
            if d is not None:
                _, c, _ = self.expr(d, {}, pure_only=True)
                dfl.append(f"/-- default value of `{f.name}({p}=…)` in the source -/\ndef {name}_default_{p} : {show_ty(t)} := {c}\n")
        sig = Sig(f.name, name, params, resolve(self.ret_type))
        return "\n".join(dfl) + text, sig


def strip_decorators(f):
    return f


def translate_module(path, want, sigs, namespace, header, class_name=None):
    """translate the functions `want` (None = all) of a module (or of one class in it)"""
    if isinstance(path, tuple):       # (label, prepared list of function definitions)
        path, prepared = path
        tree = ast.Module(body=prepared, type_ignores=[])
    else:
        tree = ast.parse(open(path).read())
    body = tree.body
    if class_name:
        body = [n for n in tree.body if isinstance(n, ast.ClassDef) and n.name == class_name][0].body
        # module-level helpers (e.g. _create_coxeter_generators) come first
        body = [n for n in tree.body if isinstance(n, ast.FunctionDef)] + body
    out, report = [header, f"namespace {namespace}", "open Cv.Py", ""], {}
    sigs = dict(sigs)
    todo = [f for f in body if isinstance(f, ast.FunctionDef) and (want is None or f.name in want)]
    # a function may call one that is defined further down in the module: retry until nothing more translates,
    # emitting in the order of success (Lean needs a definition before its use)
    progress = True
    while todo and progress:
        progress, rest = False, []
        for f in todo:
            tr = FnTranslator(sigs, namespace)
            try:
                text, sig = tr.function(f)
            except Unsupported as e:
                report[f.name] = f"not translated: {e}"
                rest.append(f)
                continue
            except Exception as e:  # translator bug: never emit a guess
                report[f.name] = f"not translated: internal {type(e).__name__}: {e}"
                rest.append(f)
                continue
            for d in tr.extra_defs:
                out.append(d)
            doc = f"/-- translated from `{path.split('/')[-1]}:{f.name}` -/\n"
            k = text.rindex(f"def {f.name} ")
            out.append(text[:k] + doc + text[k:])
            sig.lean_name = f"{namespace}.{sig.lean_name}"
            sigs[f.name] = sig
            report[f.name] = "translated"
            progress = True
        todo = rest
    for f in todo:
        out.append(f"-- NOT TRANSLATED `{f.name}`: {report[f.name]}\n")
    out.append(f"end {namespace}\n")
    return "\n".join(out), sigs, report


MUTATORS = ("append", "extend", "remove")


def check_value_semantics(f):
    """The translation gives lists VALUE semantics.  Python lists are shared, mutable objects, so that is only faithful if no
    list is mutated in place while another reference to it exists.  Conservative syntactic guard (reject, never guess):
      * decorators other than `staticmethod` (e.g. `lru_cache`: calls would share one result object) are rejected;
      * `y = x` (a second name for the same list) is rejected when `x` or `y` is mutated in place anywhere in the function;
      * a parameter that is mutated in place is rejected (the caller's object would change);
      * after a list has been stored somewhere (appended to / put into another list, a dict, a tuple, a call argument, returned,
        yielded into a comprehension) it must not be mutated in place until its name is re-bound to a fresh value — loops are
        scanned twice so that a store in one iteration followed by a mutation in the next is seen."""
    for d in f.decorator_list:
        if not (isinstance(d, ast.Name) and d.id == "staticmethod"):
            raise Unsupported(f"decorator {ast.unparse(d)}")
    mutated = set()
    for n in ast.walk(f):
        if isinstance(n, (ast.Assign, ast.AugAssign)):
            for t in (n.targets if isinstance(n, ast.Assign) else [n.target]):
                for e in ([t] if not isinstance(t, ast.Tuple) else t.elts):
                    if isinstance(e, ast.Subscript) and isinstance(e.value, ast.Name):
                        mutated.add(e.value.id)
            if isinstance(n, ast.AugAssign) and isinstance(n.target, ast.Name):
                mutated.add(n.target.id)          # `x += [...]` extends the list in place
        if isinstance(n, ast.Call) and isinstance(n.func, ast.Attribute) and n.func.attr in MUTATORS and isinstance(n.func.value, ast.Name):
            mutated.add(n.func.value.id)
    params = {a.arg for a in f.args.args + f.args.kwonlyargs}
    scalar = {a.arg for a in f.args.args + f.args.kwonlyargs if a.annotation is not None and ast.unparse(a.annotation) in ("int", "bool", "str")}
    bad = (mutated & params) - scalar
    # `step = step % len(items)` style re-binding of an int parameter is not a mutation; AugAssign on an un-annotated / list parameter is
    if bad:
        raise Unsupported(f"parameter {sorted(bad)[0]} is mutated in place")
    for n in ast.walk(f):
        if isinstance(n, ast.Assign) and isinstance(n.value, ast.Name) and len(n.targets) == 1 and isinstance(n.targets[0], ast.Name):
            if n.value.id in mutated or n.targets[0].id in mutated:
                if n.value.id not in scalar:
                    raise Unsupported(f"`{n.targets[0].id} = {n.value.id}` gives a second name to a list that is mutated in place")
    events = []

    def stores_in(expr, skip_top=False):
        """names whose object escapes into another object through `expr`"""
        out = []
        for sub in ast.walk(expr):
            if isinstance(sub, (ast.List, ast.Tuple, ast.Dict, ast.Set)):
                for e in (sub.elts if not isinstance(sub, ast.Dict) else sub.values):
                    if isinstance(e, ast.Name):
                        out.append(e.id)
            if isinstance(sub, ast.Call):
                fn = sub.func
                if isinstance(fn, ast.Name) and fn.id in ("len", "sorted", "list", "tuple", "str", "range", "min", "max", "any", "all", "sum", "enumerate", "map"):
                    continue   # builtins that copy or only read
                for e in list(sub.args) + [k.value for k in sub.keywords]:
                    if isinstance(e, ast.Name):
                        out.append(e.id)
        return out

    def walk(stmts):
        for st in stmts:
            if isinstance(st, ast.For):
                events.append(("fresh", ast.unparse(st.target)))
                for nm in ast.walk(st.target):
                    if isinstance(nm, ast.Name):
                        events.append(("fresh", nm.id))
                walk(st.body)
                walk(st.body)
            elif isinstance(st, ast.If):
                walk(st.body)
                walk(st.orelse)
            elif isinstance(st, ast.Assign):
                for x in stores_in(st.value):
                    events.append(("store", x))
                for t in st.targets:
                    for e in ([t] if not isinstance(t, ast.Tuple) else t.elts):
                        if isinstance(e, ast.Name):
                            events.append(("fresh", e.id))
                        elif isinstance(e, ast.Subscript) and isinstance(e.value, ast.Name):
                            events.append(("mut", e.value.id))
                            if isinstance(st.value, ast.Name):
                                events.append(("store", st.value.id))      # d[k] = x
            elif isinstance(st, ast.AugAssign):
                for x in stores_in(st.value):
                    events.append(("store", x))
                if isinstance(st.target, ast.Name):
                    events.append(("mut", st.target.id))
                elif isinstance(st.target, ast.Subscript) and isinstance(st.target.value, ast.Name):
                    events.append(("mut", st.target.value.id))
            elif isinstance(st, ast.Expr) and isinstance(st.value, ast.Call) and isinstance(st.value.func, ast.Attribute) \
                    and st.value.func.attr in MUTATORS and isinstance(st.value.func.value, ast.Name):
                for a in st.value.args:
                    if isinstance(a, ast.Name):
                        events.append(("store", a.id))
                    else:
                        for x in stores_in(a):
                            events.append(("store", x))
                events.append(("mut", st.value.func.value.id))
            elif isinstance(st, ast.Return) and st.value is not None:
                pass
            elif isinstance(st, (ast.Expr, ast.Assert)):
                pass

    walk(f.body)
    stored = set()
    for kind, x in events:
        if kind == "fresh":
            stored.discard(x)
        elif kind == "store":
            stored.add(x)
        elif kind == "mut" and x in stored and x not in scalar:
            # strings and ints are immutable: `name += "-ic"` re-binds
            raise Unsupported(f"list {x} is mutated in place after it was stored in another object")


def dispatcher(*sig_maps):
    """`Cv.PyGen.dispatch fn args`: run a translated function on protocol arguments (one list of ints per
    parameter; an `int` / `bool` parameter takes the head of its list; a `list[list[int]]` parameter takes all
    remaining lists) and render the result as text — used by the driver op `pygen`."""
    seen, cases = set(), []
    for m in sig_maps:
        for sig in m.values():
            if sig.lean_name in seen or not sig.lean_name.startswith("Cv.PyGen."):
                continue
            seen.add(sig.lean_name)
            tys = [resolve(t) for _, t, _ in sig.params]
            if sum(1 for t in tys if t == ("List", ("List", "Int"))) > 1:
                continue
            pats, args, k = [], [], 0
            ok = True
            for t in tys:
                if t == ("List", ("List", "Int")):
                    args.append("rest")
                    continue
                v = f"a{k}"
                k += 1
                if t == "Int":
                    pats.append(f"({v} :: _)")
                    args.append(v)
                elif t == "Bool":
                    pats.append(f"({v} :: _)")
                    args.append(f"({v} != 0)")
                elif t == ("List", "Int"):
                    pats.append(v)
                    args.append(v)
                elif t == ("List", "Str"):       # protocol: the string list ["n<i>" for i in ints]
                    pats.append(v)
                    args.append(f'({v}.map fun i => "n" ++ toString i)')
                elif t == "Str":                 # protocol: [] -> "", [i] -> "s<i>"
                    pats.append(v)
                    args.append(f'(match {v} with | [] => "" | i :: _ => "s" ++ toString i)')
                elif t == ("Opt", ("List", "Int")):   # protocol: 1 :: xs -> some xs, anything else -> none
                    pats.append(v)
                    args.append(f"(match {v} with | 1 :: xs => some xs | _ => none)")
                else:
                    ok = False
            if not ok:
                continue
            has_rest = any(t == ("List", ("List", "Int")) for t in tys)
            pat = " :: ".join(pats + (["rest"] if has_rest else ["[]"])) if pats else ("rest" if has_rest else "[]")
            short = sig.lean_name[len("Cv.PyGen."):]
            cases.append(f'  | "{short}", {pat} => showRes ({sig.lean_name} ' + " ".join(args) + ")")
    return (HEADER + "import CvGen.PyPerm\nimport CvGen.PyFamilies\nimport CvGen.PyGlobe\nimport CvGen.PyRings\nimport CvGen.PyGraphDef\n\nnamespace Cv.PyGen\nopen Cv.Py\n\n" + SHOW_LEAN
            + "def dispatch (fn : String) (args : List (List Int)) : String :=\n  match fn, args with\n"
            + "\n".join(cases) + "\n  | _, _ => \"ERR pygen\"\n\nend Cv.PyGen\n")


# canonical rendering of results, in the style of Python's repr (the harness renders the Python value the same way)
SHOW_LEAN = """class ShowRes (α : Type) where
  render : α → String
class ShowFlat (α : Type) where
  flat : α → String
instance : ShowRes Int := ⟨fun i => toString i⟩
instance : ShowRes Bool := ⟨fun b => if b then "True" else "False"⟩
instance : ShowRes String := ⟨fun s => "'" ++ s ++ "'"⟩
instance {α : Type} [ShowRes α] : ShowRes (List α) := ⟨fun l => "[" ++ ", ".intercalate (l.map ShowRes.render) ++ "]"⟩
instance {α : Type} [ShowRes α] : ShowRes (Option α) := ⟨fun o => match o with | some a => ShowRes.render a | none => "None"⟩
instance (priority := low) {α : Type} [ShowRes α] : ShowFlat α := ⟨ShowRes.render⟩
instance {α β : Type} [ShowRes α] [ShowFlat β] : ShowFlat (α × β) := ⟨fun p => ShowRes.render p.1 ++ ", " ++ ShowFlat.flat p.2⟩
instance {α β : Type} [ShowRes α] [ShowFlat β] : ShowRes (α × β) := ⟨fun p => "(" ++ ShowRes.render p.1 ++ ", " ++ ShowFlat.flat p.2 ++ ")"⟩
instance : ShowRes RawDef := ⟨fun d => "create(" ++ ShowRes.render d.gens ++ ", " ++ ShowRes.render d.names ++ ", " ++
  ShowRes.render d.central ++ ", " ++ ShowRes.render d.name ++ ")"⟩
def showRes {α : Type} [ShowRes α] : Option α → String
  | some a => "ok ; " ++ ShowRes.render a
  | none => "none"

"""


class _SelfRewriter(ast.NodeTransformer):
    """`CayleyGraphDef` methods -> functions of the object's fields, PERMUTATION branch only.

    `if self.generators_type == GeneratorType.PERMUTATION: A else: B`  ->  A
    `self.generators_permutations` -> gens, `self.generator_names` -> names, `self.central_state` -> central, `self.name` -> name,
    `self.n_generators` -> len(gens), `self.generators_inverse_closed` -> inverse_closed, `self.generators_inverse_map` -> inverse_map,
    `return self` -> `return CayleyGraphDef.create(gens, names, central, name)` (the same definition)."""

    FIELDS = {"generators_permutations": "gens", "generator_names": "names", "central_state": "central", "name": "name",
              "generators_inverse_closed": "inverse_closed", "generators_inverse_map": "inverse_map"}

    def __init__(self):
        self.used = set()

    def visit_If(self, node):
        t = ast.unparse(node.test)
        if t == "self.generators_type == GeneratorType.PERMUTATION":
            out = []
            for st in node.body:
                r = self.visit(st)
                out += r if isinstance(r, list) else [r]
            return out
        return self.generic_visit(node)

    def visit_Attribute(self, node):
        if isinstance(node.value, ast.Name) and node.value.id == "self":
            if node.attr == "n_generators":
                self.used.add("gens")
                return ast.Call(func=ast.Name(id="len", ctx=ast.Load()), args=[ast.Name(id="gens", ctx=ast.Load())], keywords=[])
            if node.attr in self.FIELDS:
                self.used.add(self.FIELDS[node.attr])
                return ast.Name(id=self.FIELDS[node.attr], ctx=node.ctx)
            raise Unsupported(f"self.{node.attr}")
        return self.generic_visit(node)

    def visit_Return(self, node):
        if isinstance(node.value, ast.Name) and node.value.id == "self":
            self.used |= {"gens", "names", "central", "name"}
            return ast.Return(value=ast.parse("CayleyGraphDef.create(gens, names, central, name)").body[0].value)
        return self.generic_visit(node)


GRAPHDEF_PARAM_TYPES = {"gens": "list[list[int]]", "names": "list[str]", "central": "list[int]", "name": "str",
                        "inverse_closed": "bool", "inverse_map": "Optional[list[int]]", "path": "list[int]"}


def graphdef_functions(repo):
    """synthetic module: the permutation branch of four `CayleyGraphDef` methods as functions of the fields they read"""
    tree = ast.parse(open(f"{repo}/cayleypy/cayley_graph_def.py").read())
    cls = [n for n in tree.body if isinstance(n, ast.ClassDef) and n.name == "CayleyGraphDef"][0]
    funcs, report = [], {}
    for name in ("generators_inverse_map", "with_inverted_generators", "make_inverse_closed", "revert_path"):
        try:
            m = [n for n in cls.body if isinstance(n, ast.FunctionDef) and n.name == name][0]
            rw = _SelfRewriter()
            body = []
            for st in m.body:
                r = rw.visit(st)
                body += r if isinstance(r, list) else [r]
            own = [a.arg for a in m.args.args if a.arg != "self"]
            order = [p for p in ("gens", "names", "central", "name", "inverse_closed", "inverse_map") if p in rw.used] + own
            args = ast.arguments(posonlyargs=[], args=[ast.arg(arg=p, annotation=ast.parse(GRAPHDEF_PARAM_TYPES[p]).body[0].value) for p in order],
                                 kwonlyargs=[], kw_defaults=[], defaults=[], vararg=None, kwarg=None)
            fn = ast.FunctionDef(name=name, args=args, body=body, decorator_list=[], returns=None, lineno=m.lineno, col_offset=0)
            ast.fix_missing_locations(fn)
            funcs.append(fn)
            report[name] = "params: " + ", ".join(order)
        except (Unsupported, IndexError, KeyError) as e:
            report[name] = f"not extracted: {e}"
    return funcs, report


HEADER = """/- REGENERATED from /repo on every run by harness/extract/pylean.py — do not edit. -/
import CvModel.PyPrelude
"""


def generate(repo, outdir):
    perm_src = f"{repo}/cayleypy/permutation_utils.py"
    perm_want = ["identity_perm", "apply_permutation", "compose_permutations", "inverse_permutation",
                 "is_permutation", "transposition", "permutation_from_cycles"]
    text1, sigs, rep1 = translate_module(perm_src, perm_want, {}, "Cv.PyGen.Perm", HEADER)
    fam_src = f"{repo}/cayleypy/graphs_lib.py"
    header2 = HEADER + "import CvGen.PyPerm\n"
    text2, sigs2, rep2 = translate_module(fam_src, None, sigs, "Cv.PyGen.Fam", header2, class_name="PermutationGroups")
    globe_src = f"{repo}/cayleypy/puzzles/globe.py"
    text4, sigs4, rep4 = translate_module(globe_src, ["help_cyclic", "globe_gens", "globe_puzzle"], sigs, "Cv.PyGen.Globe",
                                          HEADER + "import CvGen.PyPerm\n")
    rings_src = f"{repo}/cayleypy/puzzles/hungarian_rings.py"
    text5, sigs5, rep5 = translate_module(rings_src, None, {}, "Cv.PyGen.Rings", HEADER)
    gfuncs, gparams = graphdef_functions(repo)
    text6, sigs6, rep6 = translate_module(("cayley_graph_def.py", gfuncs), None, sigs, "Cv.PyGen.GraphDef", HEADER + "import CvGen.PyPerm\n")
    rep6 = {k: (v + " (" + gparams.get(k, "") + ")") for k, v in rep6.items()}
    for k, v in gparams.items():
        rep6.setdefault(k, v)
    text3 = dispatcher(sigs, sigs2, sigs4, sigs5, sigs6)
    changed = False
    for name, text in (("PyPerm.lean", text1), ("PyFamilies.lean", text2), ("PyGlobe.lean", text4), ("PyRings.lean", text5), ("PyGraphDef.lean", text6), ("PyDispatch.lean", text3)):
        p = f"{outdir}/{name}"
        try:
            old = open(p).read()
        except FileNotFoundError:
            old = None
        if old != text:
            open(p, "w").write(text)
            changed = True
    return {"permutation_utils": rep1, "graphs_lib": rep2, "globe": rep4, "hungarian_rings": rep5, "cayley_graph_def": rep6, "changed": changed}


if __name__ == "__main__":
    repo = sys.argv[1] if len(sys.argv) > 1 else "/repo"
    outdir = sys.argv[2] if len(sys.argv) > 2 else "/verif/lean/CvGen"
    print(json.dumps(generate(repo, outdir), indent=1))
