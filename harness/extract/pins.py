#!/usr/bin/env python3
"""Source pins: a structural fingerprint of every function of the library (and of its data files), recorded for the
tree the models were written and validated against (`pins.json`, committed).

On every run a check compares the current working tree with the pins.  A difference in a file the property depends
on is NOT a violation and is not reported as one: it only tells the check that the code it models has changed since
the model was validated, and the check then spends more effort searching for a failing input (further exploration
rounds with fresh seeds inside a time budget, see cv.core).  Docstrings, comments, blank lines and formatting do not
change a fingerprint (the AST is compared).

    /venv/bin/python harness/extract/pins.py write [REPO]   # re-record pins.json (after a fix: commit in /repo);
                                                            # use the interpreter the checks run under
    /venv/bin/python harness/extract/pins.py diff  [REPO]   # list what differs
"""
import ast
import glob
import hashlib
import json
import os
import sys

HERE = os.path.dirname(os.path.abspath(__file__))
PINS = os.path.join(HERE, "pins.json")
DATA_GLOBS = ["cayleypy/data/*.csv", "cayleypy/puzzles/gap_files/**/*.gap"]

CORE = [
    "cayleypy/cayley_graph.py",
    "cayleypy/cayley_graph_def.py",
    "cayleypy/string_encoder.py",
    "cayleypy/hasher.py",
    "cayleypy/torch_utils.py",
    "cayleypy/permutation_utils.py",
    "cayleypy/algo/bfs_algo.py",
    "cayleypy/algo/bfs_result.py",
]
# files a property's behaviour depends on: its anchors (properties.jsonl) plus, for everything that runs a graph, the core
DEPENDS = {
    "C15": ["cayleypy/graphs_lib.py", "cayleypy/create_graph.py", "cayleypy/permutation_utils.py", "cayleypy/cayley_graph_def.py"],
    "C16": ["cayleypy/puzzles/", "cayleypy/permutation_utils.py", "cayleypy/cayley_graph_def.py"],
    "C17": ["cayleypy/datasets.py", "cayleypy/data/", "cayleypy/graphs_lib.py", "cayleypy/puzzles/", "cayleypy/permutation_utils.py", "cayleypy/cayley_graph_def.py", "cayleypy/create_graph.py"],
    "C20": ["cayleypy/permutation_utils.py", "cayleypy/graphs_lib.py"],
}


def depends(pid):
    if pid in DEPENDS:
        return DEPENDS[pid]
    props = os.path.join(HERE, "..", "..", "properties.jsonl")
    files = []
    for line in open(props):
        p = json.loads(line)
        if p["id"] == pid:
            files = [f for f in p["anchors"]["files"] if "*" not in f]
    return sorted(set(files + CORE))


def _strip_doc(node):
    for n in ast.walk(node):
        body = getattr(n, "body", None)
        if isinstance(body, list) and body and isinstance(body[0], ast.Expr) and isinstance(getattr(body[0], "value", None), ast.Constant) and isinstance(body[0].value.value, str):
            n.body = body[1:] or [ast.Pass()]
    return node


def _h(node):
    # normalised source text (ast.unparse): independent of comments, blank lines, line breaks and quoting
    return hashlib.sha256(ast.unparse(node).encode()).hexdigest()[:16]


def file_fingerprints(path):
    """{qualified name: hash} for every function / method, plus '<module>' for the remaining top-level statements."""
    try:
        tree = _strip_doc(ast.parse(open(path).read()))
    except (SyntaxError, OSError) as ex:
        return {"<unparsable>": type(ex).__name__}
    out = {}
    rest = []

    def visit(body, prefix, sink):
        for st in body:
            if isinstance(st, (ast.FunctionDef, ast.AsyncFunctionDef)):
                out[prefix + st.name] = _h(st)
            elif isinstance(st, ast.ClassDef):
                cls_rest = []
                visit(st.body, prefix + st.name + ".", cls_rest)
                out[prefix + st.name + ".<class body>"] = hashlib.sha256("".join(cls_rest).encode()).hexdigest()[:16]
            else:
                sink.append(_h(st))

    visit(tree.body, "", rest)
    out["<module>"] = hashlib.sha256("".join(rest).encode()).hexdigest()[:16]
    return out


def fingerprints(repo):
    fp = {}
    for path in sorted(glob.glob(os.path.join(repo, "cayleypy", "**", "*.py"), recursive=True)):
        rel = os.path.relpath(path, repo)
        if rel.endswith("_test.py"):
            continue
        fp[rel] = file_fingerprints(path)
    for g in DATA_GLOBS:
        for path in sorted(glob.glob(os.path.join(repo, g), recursive=True)):
            fp[os.path.relpath(path, repo)] = {"<content>": hashlib.sha256(open(path, "rb").read()).hexdigest()[:16]}
    return fp


def changed(repo, pid=None):
    """['file::name', ...] whose fingerprint differs from pins.json (restricted to the files `pid` depends on)."""
    if not os.path.exists(PINS):
        return ["<no pins.json>"]
    rec = json.load(open(PINS))
    if rec.get("python") != list(sys.version_info[:2]):
        return []  # unparse may differ between Python versions: no comparison, no extra rounds (never an alarm)
    pinned = rec["fingerprints"]
    cur = fingerprints(repo)
    deps = depends(pid) if pid else None
    out = []
    for f in sorted(set(pinned) | set(cur)):
        if deps is not None and not any(f == d or (d.endswith("/") and f.startswith(d)) for d in deps):
            continue
        a, b = pinned.get(f, {}), cur.get(f, {})
        for k in sorted(set(a) | set(b)):
            if a.get(k) != b.get(k):
                out.append(f"{f}::{k}")
    return out


if __name__ == "__main__":
    cmd = sys.argv[1] if len(sys.argv) > 1 else "diff"
    repo = sys.argv[2] if len(sys.argv) > 2 else os.environ.get("CV_REPO", "/repo")
    if cmd == "write":
        import subprocess

        head = subprocess.run(["git", "-C", repo, "rev-parse", "HEAD"], capture_output=True, text=True).stdout.strip()
        json.dump({"recorded_from_commit": head, "python": list(sys.version_info[:2]), "fingerprints": fingerprints(repo)}, open(PINS, "w"), indent=0, sort_keys=True)
        print("pins written for", head)
    else:
        for c in changed(repo):
            print(c)
