#!/usr/bin/env python3
"""Writes /verif/MANIFEST.json from the table below (kept next to the checks so that it stays valid)."""
import json
import os
import subprocess

HERE = os.path.abspath(os.path.join(os.path.dirname(__file__), ".."))

LEVEL_NOTE = (
    "Trusted: Lean 4.33 kernel (axioms of every property theorem checked to be within propext, Classical.choice, Quot.sound; no sorry/"
    "native_decide/bv_decide/own axioms), the compiled driver running the model, the translators in harness/extract, the correspondence "
    "harness and its generators (sampled unless stated exhaustive). Modelled, not verified: torch/NumPy/numba/h5py kernels, CPython. "
    "Hash collisions are excluded by hypothesis in the theorems; hook H2 reports any equal-hash/different-state event during the runs."
)

# id -> (title words, technique, level text, design ref)
CHECKS = {
    "C01": (
        "Lean theorems about a line-by-line model of BfsAlgorithm.bfs (layers = distance classes for every config) + proven reference BFS as oracle + model/implementation correspondence",
        "Proof (theorem about the model `Cv.bfs`: reported layers are the distance classes, config-independent; reference BFS `refLayers` proven correct) tied to the code by a correspondence that runs the model, the real BFS and the proven oracle on generated definitions x internal configurations.",
        "5 C01",
    ),
    "C02": (
        "Lean-proven sound checker certifies every generated bit-permutation routine for all inputs (translation validation) + codec round-trip theorems + correspondence of encode/decode/action/matrix kernels",
        "Proof + translation validation: each routine the library generates is parsed (hook H1) and accepted by `checkProg`, whose soundness theorem gives equality with the permutation on all 2^(64L) inputs; codec and action are compared bit-for-bit with the model and with exact integer arithmetic.",
        "5 C02",
    ),
    "C03": (
        "Lean theorems on the hash IR regenerated from hasher.py (mixer injective, one-word differences never collide, chunk independence, first-occurrence de-duplication) + multi-seed structured collision search",
        "Proof about the regenerated mixing IR and the de-duplication model; partial by nature: the absence of seed-independent collisions for ALL pairs is false for this combiner (negative theorem, known finding) — the structured multi-seed search is a test and labelled as such.",
        "5 C03",
    ),
    "C09": (
        "Lean theorems about the BFS model's stopping/storage/hash/callback rules + correspondence against the documented rule evaluated over the proven oracle",
        "Proof (prefix, stop-rule, storage, hashes, callback-trace theorems about `Cv.bfs`) tied to the code by running model, implementation and the rule-over-oracle on generated limits.",
        "5 C09",
    ),
}

CHECKS.update({
    "C04": (
        "Lean theorems about the model of restore_path / find_path_to / find_path_from / revert_path + exact correspondence (implementation's hash values passed to the model) + proven reference BFS as distance oracle",
        "Proof (path found iff state in layers 0..D; valid and shortest; assertion unreachable) about the model, tied to the code by running both on generated balls and queries with identical hash values.",
        "5 C04",
    ),
    "C05": (
        "Lean theorems about the models of MeetInTheMiddle.find_path_to/from/between and InteractiveBfs + exact correspondence + proven reference BFS (minimum over pairs) as oracle",
        "Proof (shortest path iff distance <= 2D; set-to-set minimum iff <= 2M) about the model, tied to the code by running both on generated balls, sets and depth limits.",
        "5 C05",
    ),
    "C06": (
        "Lean theorems (soundness for every selection oracle, exactness when unpruned) about models of both beam modes + correspondence replaying recorded torch.argsort choices",
        "Proof about the model with the score function and argsort as universally quantified oracles; tied to the code by replaying recorded choices through the model and judging results by exact-length reachability.",
        "5 C06",
    ),
    "C07": (
        "Lean theorems (for all random draws) about models of the three random-walk generators + correspondence replaying recorded torch.randint/randperm draws",
        "Proof about the model with random draws as universally quantified oracles; tied to the code by replaying recorded draws (outputs must be identical) and judging by exact-length reachability.",
        "5 C07",
    ),
    "C12": (
        "Lean model of find_path (cached ball + MITM + reversal) with theorems as corollaries of C05/C10 + correspondence on repeated queries on one graph object",
        "Proof about the model, tied to the code by sequences of queries with varying BFS limits on one graph object; judged by Spec distances and replay.",
        "5 C12",
    ),
})

CHECKS.update({
    "C08": (
        "Lean model of edge recording, renumbering, adjacency and naming (theorems about the exported edge multiset) + exact correspondence with the implementation's numbering + Spec-level expected edge set",
        "Proof about the export model (vertex numbering, edge multiset = {(v, g v)}), tied to the code by running both with identical hash values; scipy/networkx modelled (compared with the dense matrix).",
        "5 C08",
    ),
    "C10": (
        "Lean theorems about the models of inverse_permutation, generators_inverse_map, with_inverted_generators, make_inverse_closed (and inv soundness for every float candidate) + the permutation branch of those four CayleyGraphDef methods REGENERATED from cayley_graph_def.py on every run by a Python-to-Lean translator (executed against the real objects; theorems `generated = model` in CvProps/C10g.lean where listed in the evidence) + exhaustive small-n correspondence",
        "Proof for permutation definitions (full) and soundness of matrix inversion for every candidate; completeness of the float-based matrix inverse is partial (IEEE floats are an oracle) and covered by the correspondence against an exact rational inverse.",
        "5 C10",
    ),
    "C19": (
        "Lean theorems (Hamming = mismatch count, zero iff central, batch independence for every batch size) + correspondence on vector and matrix states",
        "Proof about the predictor model and the batching combinator, tied to the code by running both on generated batches and batch sizes.",
        "5 C19",
    ),
    "C20": (
        "Lean theorems about the model of permutation_utils (group laws, cycles, class enumeration: sound, duplicate-free, complete) + model REGENERATED from permutation_utils.py on every run by a Python-to-Lean translator with theorems `generated = model` for the seven helpers (all arguments) and the laws transferred to the generated source + exhaustive correspondence for all pairs n <= 5 and all cycle types n <= 6",
        "Proof (laws for all permutations; conjugacy-class enumerator sound/nodup/complete), tied to the code twice: (1) translator harness/extract/pylean.py regenerates CvGen/PyPerm.lean from the source on every run and the kernel re-checks 33 theorems `generated = model` against it (the generated definitions are also executed against Python on ~3 600 calls); (2) model/implementation correspondence, exhaustive on small n and random to n = 40.",
        "5 C20",
    ),
})

CHECKS.update({
    "C11": (
        "Lean theorems about models of the interactive, NumPy and bit-set engines (layers = distance classes; rank/unrank round trip) + correspondence against the proven reference BFS",
        "Proof for the interactive and NumPy engine models and the abstract bit-set BFS; the numba arithmetic of the bit-mask engine is modelled (partial) and tied by running n = 9 (10) against the proven oracle and rank/unrank against the model.",
        "5 C11",
    ),
    "C13": (
        "thin Lean model of input normalisation / widening cast (congruence theorems, negative example without the cast) + exhaustive enumeration of the finite product entry point x container x dtype x shape",
        "Proof about a thin model plus an exhaustively enumerated finite configuration space on fixed graphs: every cell must equal the flat-list cell.",
        "5 C13",
    ),
    "C14": (
        "Lean state-machine model of a graph object with caches and copies (history independence theorem) + random operation sequences compared with fresh objects and fingerprints of the immutable parts",
        "Proof about the session model (bookkeeping of caches/copies for arbitrary semantic functions) tied to the code by operation sequences on one object and its copies compared with freshly constructed graphs.",
        "5 C14",
    ),
    "C15": (
        "closed-form specification of every family (Lean; 206 forall-parameter theorems: validity, counts, structure, inverse-closedness) + constructors REGENERATED from graphs_lib.py on every run by a Python-to-Lean translator with theorems `translated constructor followed by create = specification` for 26 constructors and ALL parameters + exact comparison of generators/names/central state/name for all admissible parameters up to a cap + directed search beyond the cap when a generated=specification theorem breaks + group orders by Schreier-Sims",
        "Proof for the specified families (for all parameters), tied to the code twice: (1) translator harness/extract/pylean.py regenerates CvGen/PyFamilies.lean from the source on every run and the kernel re-checks 57 theorems `generated o create = specification` (no parameter bound) against it, the generated definitions are executed against Python on ~4 000 calls; (2) exhaustive small-parameter comparison of the library with the specification (all constructors, incl. the 9 not covered by (1): tied by (2) only); group orders are checked computations.",
        "5 C15",
    ),
    "C16": (
        "Lean model of the GAP reader/printer (parse-print theorem) and puzzle structure predicates + puzzles/globe.py and puzzles/hungarian_rings.py REGENERATED from the source on every run by a Python-to-Lean translator with theorems `generated = specification` for all parameters (CvProps/C16g.lean, C16r.lean) + all 92 shipped files against an independent reader + structure checks of generated cubes, rings, globes",
        "Proof for the GAP reader model and ring/globe structure where finished; per-instance checked computations for cubes; exhaustive over the shipped files.",
        "5 C16",
    ),
    "C17": (
        "Lean-proven reference BFS (layers = distance classes; capped variants are prefixes) executed on every row of every dataset",
        "Proof of the oracle (refLayers_spec, growth_prefix, refLayersCap(W)_prefix); every dataset row is a closed instance decided by running the proven function: exact when the orbit is enumerable within the budget, prefix + positivity + known order otherwise.",
        "5 C17",
    ),
    "C18": (
        "Lean theorems load(save r) = r, field-wise equality, loaded results answer path queries, over a key-value model of the HDF5 layout + correspondence of the file layout and round trips with mutants",
        "Proof about the save/load model tied to the code by comparing the real file's key/shape layout with the model, field-by-field round trips, single-field mutants for ==, and path queries on loaded results.",
        "5 C18",
    ),
})

NOT_YET = {
}


def main():
    props = [json.loads(l) for l in open(os.path.join(HERE, "properties.jsonl"))]
    checks = []
    na = []
    for p in props:
        pid = p["id"]
        if pid in CHECKS and os.path.exists(os.path.join(HERE, "harness", "checks", pid + ".py")):
            tech, text, ref = CHECKS[pid]
            checks.append(
                {
                    "property_id": pid,
                    "quick_cmd": f"./check {pid} --tier quick",
                    "thorough_cmd": f"./check {pid} --tier thorough",
                    "evidence_file": f"evidence/{pid}.json",
                    "replay_cmd_template": f"./check {pid} --replay {{path}}",
                    "engine": "lean-proof+correspondence",
                    "level_claimed": {"category": "proof", "text": text, "design_ref": "DESIGN.md section " + ref},
                    "level_note": LEVEL_NOTE,
                    "technique": tech,
                }
            )
        else:
            na.append({"property_id": pid, "reason": NOT_YET.get(pid, "check not built yet in this session (work in progress; not a claim of inapplicability)")})
    hooks = subprocess.run(["git", "-C", "/repo", "log", "--format=%H %s"], capture_output=True, text=True).stdout.strip().split("\n")
    hook_commits = [l.split()[0] for l in hooks if "verif hook" in l]
    man = {
        "version": 1,
        "setup_cmd": "python3 harness/extract/regen.py /repo && cd lean && lake build CvModel CvGen cvdriver CvProofs CvProps",
        "hooks": {
            "guard": "CAYLEYPY_VERIF",
            "enable": "checks set CAYLEYPY_VERIF=1 and import cayleypy from /repo's working tree (PYTHONPATH=/repo, /venv/bin/python); nothing is built",
            "baseline_off_cmd": "cd /repo && env -u CAYLEYPY_VERIF /venv/bin/python -m pytest -ra -q -p no:cacheprovider --timeout=900 --continue-on-collection-errors",
            "source_commits": hook_commits,
            "add_only": True,
        },
        "engines": [
            {
                "name": "lean-proof+correspondence",
                "path": "lean/ (model, proofs, driver) + harness/ (correspondence, translators, search)",
                "serves_properties": [c["property_id"] for c in checks],
                "kind_free_text": "Lean 4 model + kernel-checked theorems; model tied to /repo by translators (CvGen) and a differential correspondence through the compiled driver",
            }
        ],
        "checks": checks,
        "notes": "Known findings: known_findings.json. Replays: replays/. Every check regenerates lean/CvGen from /repo and rebuilds incrementally. Each check audits the abstract property theorems AND the end-to-end theorems (CvProps/C*e.lean, C*m.lean, C14i, C11b, C11x) that instantiate them with the encoded / plain permutation graphs and matrix graphs the library builds. Seeded changes and which check catches which: seeded/, DESIGN.md 11.5. Source pins (harness/extract/pins.json) only direct search effort. /repo commits 0f8331d and 2f6a4cd cancel each other (a seeded change of /verif/seeded that the end-of-round snapshot committed from a dirty working tree, and its revert; DESIGN.md 13.1): neither is a hook nor a fix, the tree equals 8ed5e13.",
        "not_applicable": na,
    }
    with open(os.path.join(HERE, "MANIFEST.json"), "w") as f:
        json.dump(man, f, indent=1)
    print("checks:", [c["property_id"] for c in checks], "pending:", [x["property_id"] for x in na])


if __name__ == "__main__":
    main()
