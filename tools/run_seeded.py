#!/usr/bin/env python3
"""Runs the registered quick checks against every seeded change under /verif/seeded/<id>/patch.diff.

/repo itself is never touched: the changes are applied to a scratch worktree of /repo's HEAD outside /repo and /verif
(`git worktree add --detach`), the checks run against it through CV_REPO, and the worktree is removed at the end.  (Patching
/repo in place once left a seeded change behind when the session was killed before the `finally` ran; the end-of-round
snapshot then committed it and C04/C14 - rightly - raised alarms on the "unchanged" tree.)
For each change: `git apply` in the worktree, run the check of the targeted property (and, with --all, every check),
record exit status / VIOLATION lines, then `git checkout -- .` there.  Results: seeded/RESULTS.json + .md.
Usage: tools/run_seeded.py [--all] [--only ID ...] [--tier quick|thorough]
"""
import argparse
import json
import os
import subprocess
import sys
import time

HERE = os.path.abspath(os.path.join(os.path.dirname(__file__), ".."))
SRC = "/repo"
REPO = f"/tmp/cv_seedrepo_{os.getpid()}"  # scratch worktree; /repo is left alone


def sh(cmd, **kw):
    return subprocess.run(cmd, shell=True, capture_output=True, text=True, **kw)


def main():
    ap = argparse.ArgumentParser()
    ap.add_argument("--all", action="store_true")
    ap.add_argument("--only", nargs="*")
    ap.add_argument("--tier", default="quick")
    ap.add_argument("--out", default="RESULTS", help="basename of the result files under seeded/")
    a = ap.parse_args()
    if sh(f"git -C {SRC} status --porcelain").stdout.strip():
        print("/repo is not clean; refusing", file=sys.stderr)
        sys.exit(2)
    sh(f"git -C {SRC} worktree prune")
    r = sh(f"git -C {SRC} worktree add --detach {REPO} HEAD")
    if r.returncode != 0:
        print("cannot create the scratch worktree:", r.stderr[:300], file=sys.stderr)
        sys.exit(2)
    try:
        run(a)
    finally:
        sh(f"git -C {SRC} worktree remove --force {REPO}")
        sh(f"git -C {SRC} worktree prune")


def run(a):
    man = json.load(open(os.path.join(HERE, "MANIFEST.json")))
    all_checks = [c["property_id"] for c in man["checks"]]
    res_path = os.path.join(HERE, "seeded", a.out + ".json")
    results = json.load(open(res_path)) if os.path.exists(res_path) else {}
    for sid in sorted(os.listdir(os.path.join(HERE, "seeded"))):
        d = os.path.join(HERE, "seeded", sid)
        patch = os.path.join(d, "patch.diff")
        if not os.path.isfile(patch) or (a.only and sid not in a.only):
            continue
        meta = json.load(open(os.path.join(d, "meta.json")))
        targets = all_checks if a.all else [meta["property"]] + meta.get("also_check", [])
        r = sh(f"git -C {REPO} apply {patch}")
        if r.returncode != 0:
            print(sid, "patch does not apply:", r.stderr[:200])
            results[sid] = {"error": "patch does not apply"}
            continue
        try:
            row = results.get(sid, {})
            for pid in targets:
                t0 = time.time()
                c = sh(f"CV_REPO={REPO} CV_EVIDENCE_DIR=/tmp/cv_seeded_evidence ./check {pid} --tier {a.tier}", cwd=HERE, timeout=7200)
                viol = [l for l in c.stdout.split("\n") if l.startswith("VIOLATION")]
                row[pid] = {
                    "exit": c.returncode,
                    "violations": len(viol),
                    "no_failing_input_found": any("no-failing-input-found" in l for l in viol),
                    "first": viol[0] if viol else "",
                    "wall_s": round(time.time() - t0, 1),
                }
                print(sid, pid, "exit", c.returncode, "violations", len(viol), row[pid]["first"][:120])
                sys.stdout.flush()
            results[sid] = row
        finally:
            sh(f"git -C {REPO} checkout -- .")
            sh("find replays -name '*.json' -delete", cwd=HERE)
        json.dump(results, open(res_path, "w"), indent=1)
    # markdown matrix
    lines = ["# Seeded changes vs checks", "", "| seeded change | property | detected by | exit codes |", "|---|---|---|---|"]
    for sid, row in sorted(results.items()):
        if "error" in row:
            lines.append(f"| {sid} | ? | (patch does not apply) | |")
            continue
        meta = json.load(open(os.path.join(HERE, "seeded", sid, "meta.json")))
        det = [p for p, v in row.items() if v["exit"] == 1 and v["violations"] > 0]
        lines.append(f"| {sid} | {meta['property']} | {', '.join(det) or '**MISSED**'} | " + " ".join(f"{p}:{v['exit']}" for p, v in sorted(row.items())) + " |")
    open(os.path.join(HERE, "seeded", a.out + ".md"), "w").write("\n".join(lines) + "\n")


if __name__ == "__main__":
    main()
